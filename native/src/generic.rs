//! Generic oracles over the public `cipher` traits.  Everything here talks to the crates under test only through
//! `KeyInit`, `BlockCipherEncrypt`, `BlockCipherDecrypt`, `Clone`, `Debug`, `AlgorithmName` and `Drop`.
use crate::util::*;
use cipher::typenum::Unsigned;
use cipher::{
    AlgorithmName, Array, BlockCipherDecClosure, BlockCipherDecrypt, BlockCipherEncClosure, BlockCipherEncrypt,
    BlockSizeUser, InOut, InOutBuf, Key, KeyInit, KeySizeUser,
};
use core::mem::{size_of, MaybeUninit};
use std::fmt;

// ------------------------------------------------------------------------------------------------ descriptors

/// One exported cipher type (or a test wrapper joining an encrypt-only and a decrypt-only half).
pub trait Desc {
    type C: KeyInit + BlockCipherEncrypt + BlockCipherDecrypt;
    const CRATE: &'static str;
    const NAME: &'static str;
    /// conformance property of this type ("C02", "C05" .. "C10"), "" if bcref has no matching function
    const REF_PROP: &'static str = "";
    /// `C` is a wrapper written here (Enc+Dec halves, Threefish with tweak): the constructor-, drop- and
    /// formatting properties (C11, C13, C16, C19) are checked on the real types elsewhere
    const WRAPPER: bool = false;
    /// key lengths `new_from_slice` must accept (exactly these, C11)
    fn key_lens() -> Vec<usize>;
    /// the standard's function on bytes
    fn reference(_key: &[u8], _block: &[u8], _dec: bool) -> Option<Vec<u8>> {
        None
    }
    fn clone_of(_c: &Self::C) -> Option<Self::C> {
        None
    }
    fn debug_of(_c: &Self::C) -> Option<String> {
        None
    }
    fn alg_name() -> Option<String> {
        None
    }
    /// identifiers the Debug text may start with (the type's own name, or the generic type's name)
    fn type_names() -> Vec<&'static str> {
        vec![]
    }
    /// lower-case fragments the algorithm name must contain (algorithm, variant, key size ...)
    fn alg_must_contain() -> Vec<&'static str> {
        vec![]
    }
    /// C13: is `key` (of the fixed key size) one the weak-key test must reject?
    fn expect_weak(_key: &[u8]) -> bool {
        false
    }
    /// C13: keys around the boundary of the weak set
    fn weak_candidates(_rng: &mut Rng) -> Vec<Vec<u8>> {
        vec![]
    }
}

macro_rules! cap {
    (clone) => {
        fn clone_of(c: &Self::C) -> Option<Self::C> {
            Some(c.clone())
        }
    };
    (debug) => {
        fn debug_of(c: &Self::C) -> Option<String> {
            Some(format!("{:?}", c))
        }
    };
    (alg) => {
        fn alg_name() -> Option<String> {
            Some($crate::generic::alg_name_of::<Self::C>())
        }
    };
}

/// desc!(Marker: Type, "crate", "Name", lens, "Cxx", [clone, debug, alg], names [..], alg [..], |k, b, dec| reference; extra items)
macro_rules! desc {
    ($d:ident : $ty:ty, $krate:expr, $name:expr, $lens:expr, $rp:expr, [$($cap:ident),*],
     names [$($n:expr),*], alg [$($a:expr),*], |$k:ident, $b:ident, $dec:ident| $body:expr $(; $($extra:tt)*)?) => {
        pub struct $d;
        impl $crate::generic::Desc for $d {
            type C = $ty;
            const CRATE: &'static str = $krate;
            const NAME: &'static str = $name;
            const REF_PROP: &'static str = $rp;
            fn key_lens() -> Vec<usize> { ($lens).into_iter().collect() }
            fn type_names() -> Vec<&'static str> { vec![$($n),*] }
            fn alg_must_contain() -> Vec<&'static str> { vec![$($a),*] }
            #[allow(unused_variables)]
            fn reference($k: &[u8], $b: &[u8], $dec: bool) -> Option<Vec<u8>> { $body }
            $( cap!($cap); )*
            $($($extra)*)?
        }
    };
}

struct AlgName<T>(core::marker::PhantomData<T>);
impl<T: AlgorithmName> fmt::Display for AlgName<T> {
    fn fmt(&self, f: &mut fmt::Formatter<'_>) -> fmt::Result {
        T::write_alg_name(f)
    }
}
pub fn alg_name_of<T: AlgorithmName>() -> String {
    format!("{}", AlgName::<T>(core::marker::PhantomData))
}

// ------------------------------------------------------------------------------------------------ wrappers

/// encrypt-only half and decrypt-only half, both keyed with `new`
pub struct PairNew<E, D> {
    pub e: E,
    pub d: D,
}
/// decrypt-only half obtained from a reference to the encrypt-only half
pub struct PairFromRef<E, D> {
    pub e: E,
    pub d: D,
}
/// decrypt-only half obtained from the encrypt-only half by value (a clone of it)
pub struct PairFromVal<E, D> {
    pub e: E,
    pub d: D,
}

macro_rules! pair_impl {
    ($p:ident, |$key:ident| $mk:expr, $($bound:tt)*) => {
        impl<E: KeySizeUser, D> KeySizeUser for $p<E, D> {
            type KeySize = E::KeySize;
        }
        impl<E: BlockSizeUser, D> BlockSizeUser for $p<E, D> {
            type BlockSize = E::BlockSize;
        }
        impl<E, D> KeyInit for $p<E, D>
        where
            E: KeyInit + Clone,
            D: KeyInit + KeySizeUser<KeySize = E::KeySize>,
            $($bound)*
        {
            fn new($key: &Key<Self>) -> Self {
                $mk
            }
            fn weak_key_test(key: &Key<Self>) -> Result<(), cipher::crypto_common::WeakKeyError> {
                E::weak_key_test(key)
            }
        }
        impl<E: BlockCipherEncrypt, D> BlockCipherEncrypt for $p<E, D> {
            #[inline]
            fn encrypt_with_backend(&self, f: impl BlockCipherEncClosure<BlockSize = Self::BlockSize>) {
                self.e.encrypt_with_backend(f)
            }
        }
        impl<E: BlockSizeUser, D: BlockCipherDecrypt + BlockSizeUser<BlockSize = E::BlockSize>> BlockCipherDecrypt
            for $p<E, D>
        {
            #[inline]
            fn decrypt_with_backend(&self, f: impl BlockCipherDecClosure<BlockSize = Self::BlockSize>) {
                self.d.decrypt_with_backend(f)
            }
        }
    };
}
pair_impl!(PairNew, |key| PairNew { e: E::new(key), d: D::new(key) },);
pair_impl!(PairFromRef, |key| { let e = E::new(key); let d = D::from(&e); PairFromRef { e, d } }, D: for<'a> From<&'a E>,);
pair_impl!(PairFromVal, |key| { let e = E::new(key); let d = D::from(e.clone()); PairFromVal { e, d } }, D: From<E>,);

// ------------------------------------------------------------------------------------------------ byte-level calls

pub fn bs<C: BlockSizeUser>() -> usize {
    C::BlockSize::USIZE
}
pub fn ks<C: KeySizeUser>() -> usize {
    C::KeySize::USIZE
}
/// the key slice viewed as `&Key<C>` WITHOUT copying it (C16 must not leave copies of the key on the stack itself)
pub fn kref<C: KeySizeUser>(k: &[u8]) -> &Key<C> {
    <&Key<C>>::try_from(k).expect("key length")
}

pub fn enc1<C: BlockCipherEncrypt>(c: &C, b: &[u8]) -> Vec<u8> {
    let mut blk = Array::<u8, C::BlockSize>::try_from(b).expect("block length");
    c.encrypt_block(&mut blk);
    blk.as_slice().to_vec()
}
pub fn dec1<C: BlockCipherDecrypt>(c: &C, b: &[u8]) -> Vec<u8> {
    let mut blk = Array::<u8, C::BlockSize>::try_from(b).expect("block length");
    c.decrypt_block(&mut blk);
    blk.as_slice().to_vec()
}
pub fn one<C: BlockCipherEncrypt + BlockCipherDecrypt>(c: &C, b: &[u8], dec: bool) -> Vec<u8> {
    if dec { dec1(c, b) } else { enc1(c, b) }
}
pub fn enc_many<C: BlockCipherEncrypt>(c: &C, buf: &mut [u8]) {
    let (blocks, rest) = Array::<u8, C::BlockSize>::slice_as_chunks_mut(buf);
    assert!(rest.is_empty());
    c.encrypt_blocks(blocks);
}
pub fn dec_many<C: BlockCipherDecrypt>(c: &C, buf: &mut [u8]) {
    let (blocks, rest) = Array::<u8, C::BlockSize>::slice_as_chunks_mut(buf);
    assert!(rest.is_empty());
    c.decrypt_blocks(blocks);
}
pub fn many<C: BlockCipherEncrypt + BlockCipherDecrypt>(c: &C, buf: &mut [u8], dec: bool) {
    if dec { dec_many(c, buf) } else { enc_many(c, buf) }
}
pub fn enc_b2b<C: BlockCipherEncrypt>(c: &C, inp: &[u8], out: &mut [u8]) -> bool {
    let (ib, r1) = Array::<u8, C::BlockSize>::slice_as_chunks(inp);
    let (ob, r2) = Array::<u8, C::BlockSize>::slice_as_chunks_mut(out);
    assert!(r1.is_empty() && r2.is_empty());
    c.encrypt_blocks_b2b(ib, ob).is_ok()
}
pub fn dec_b2b<C: BlockCipherDecrypt>(c: &C, inp: &[u8], out: &mut [u8]) -> bool {
    let (ib, r1) = Array::<u8, C::BlockSize>::slice_as_chunks(inp);
    let (ob, r2) = Array::<u8, C::BlockSize>::slice_as_chunks_mut(out);
    assert!(r1.is_empty() && r2.is_empty());
    c.decrypt_blocks_b2b(ib, ob).is_ok()
}
pub fn enc_inout<C: BlockCipherEncrypt>(c: &C, inp: &[u8], out: &mut [u8]) {
    let (ib, _) = Array::<u8, C::BlockSize>::slice_as_chunks(inp);
    let (ob, _) = Array::<u8, C::BlockSize>::slice_as_chunks_mut(out);
    c.encrypt_blocks_inout(InOutBuf::new(ib, ob).expect("equal lengths"));
}
pub fn dec_inout<C: BlockCipherDecrypt>(c: &C, inp: &[u8], out: &mut [u8]) {
    let (ib, _) = Array::<u8, C::BlockSize>::slice_as_chunks(inp);
    let (ob, _) = Array::<u8, C::BlockSize>::slice_as_chunks_mut(out);
    c.decrypt_blocks_inout(InOutBuf::new(ib, ob).expect("equal lengths"));
}
/// in-place through the InOutBuf form
pub fn enc_inout_inplace<C: BlockCipherEncrypt>(c: &C, buf: &mut [u8]) {
    let (b, _) = Array::<u8, C::BlockSize>::slice_as_chunks_mut(buf);
    c.encrypt_blocks_inout(InOutBuf::from(b));
}
pub fn dec_inout_inplace<C: BlockCipherDecrypt>(c: &C, buf: &mut [u8]) {
    let (b, _) = Array::<u8, C::BlockSize>::slice_as_chunks_mut(buf);
    c.decrypt_blocks_inout(InOutBuf::from(b));
}
pub fn enc1_b2b<C: BlockCipherEncrypt>(c: &C, inp: &[u8], out: &mut [u8]) {
    let ib = <&Array<u8, C::BlockSize>>::try_from(inp).unwrap();
    let ob = <&mut Array<u8, C::BlockSize>>::try_from(out).unwrap();
    c.encrypt_block_b2b(ib, ob);
}
pub fn dec1_b2b<C: BlockCipherDecrypt>(c: &C, inp: &[u8], out: &mut [u8]) {
    let ib = <&Array<u8, C::BlockSize>>::try_from(inp).unwrap();
    let ob = <&mut Array<u8, C::BlockSize>>::try_from(out).unwrap();
    c.decrypt_block_b2b(ib, ob);
}
pub fn enc1_inout<C: BlockCipherEncrypt>(c: &C, inp: &[u8], out: &mut [u8]) {
    let ib = <&Array<u8, C::BlockSize>>::try_from(inp).unwrap();
    let ob = <&mut Array<u8, C::BlockSize>>::try_from(out).unwrap();
    c.encrypt_block_inout(InOut::from((ib, ob)));
}
pub fn dec1_inout<C: BlockCipherDecrypt>(c: &C, inp: &[u8], out: &mut [u8]) {
    let ib = <&Array<u8, C::BlockSize>>::try_from(inp).unwrap();
    let ob = <&mut Array<u8, C::BlockSize>>::try_from(out).unwrap();
    c.decrypt_block_inout(InOut::from((ib, ob)));
}

/// observable behaviour of a full cipher on one block: E(x) || D(x)
pub fn probe_full<C: BlockCipherEncrypt + BlockCipherDecrypt>(c: &C, x: &[u8]) -> Vec<u8> {
    let mut v = enc1(c, x);
    v.extend(dec1(c, x));
    v
}

/// keys for `n` cases, cycling through every accepted length at least once
pub fn key_plan(rng: &mut Rng, lens: &[usize], n: usize) -> Vec<Vec<u8>> {
    let total = n.max(lens.len());
    (0..total).map(|i| rng.bytes(lens[i % lens.len()])).collect()
}

/// Do two instances compute the same function?  Reports under `what` with the distinguishing block.
pub fn same_cipher<T>(what: &str, a: &T, b: &T, probe: &dyn Fn(&T, &[u8]) -> Vec<u8>, bsz: usize, rng: &mut Rng) -> bool {
    for _ in 0..4 {
        let x = rng.bytes(bsz);
        input_add("block", &x);
        let (pa, pb) = (probe(a, &x), probe(b, &x));
        if pa != pb {
            fail_bytes(what, &pa, &pb);
            return false;
        }
    }
    true
}

// ------------------------------------------------------------------------------------------------ C01

pub fn c01<D: Desc>() {
    set_prop("C01");
    let bsz = bs::<D::C>();
    let mut rng = Rng::for_label(&format!("C01/{}/{}", D::CRATE, D::NAME));
    for key in key_plan(&mut rng, &D::key_lens(), iters()) {
        input(&[("key", &key)]);
        guard("round trip", || {
            let Ok(c) = D::C::new_from_slice(&key) else { return };
            for _ in 0..4 {
                let x = rng.bytes(bsz);
                input(&[("key", &key), ("block", &x)]);
                let y = enc1(&c, &x);
                let x2 = dec1(&c, &y);
                check_eq("decrypt(encrypt(x)) != x", &x2, &x);
                let z = dec1(&c, &x);
                let x3 = enc1(&c, &z);
                check_eq("encrypt(decrypt(x)) != x", &x3, &x);
            }
            // a batch (parallel backends) round-trips too
            let n = rng.range(2, 24);
            let x = rng.plain(n * bsz);
            input(&[("key", &key), ("blocks", &x)]);
            let mut y = x.clone();
            enc_many(&c, &mut y);
            dec_many(&c, &mut y);
            check_eq("decrypt_blocks(encrypt_blocks(x)) != x", &y, &x);
            let mut y = x.clone();
            dec_many(&c, &mut y);
            enc_many(&c, &mut y);
            check_eq("encrypt_blocks(decrypt_blocks(x)) != x", &y, &x);
        });
    }
}

// ------------------------------------------------------------------------------------------------ C02, C05..C10

pub fn cref<D: Desc>() {
    set_prop(D::REF_PROP);
    let bsz = bs::<D::C>();
    let mut rng = Rng::for_label(&format!("REF/{}/{}", D::CRATE, D::NAME));
    for key in key_plan(&mut rng, &D::key_lens(), iters()) {
        input(&[("key", &key)]);
        guard("conformance", || {
            let Ok(c) = D::C::new_from_slice(&key) else { return };
            for _ in 0..4 {
                let x = rng.bytes(bsz);
                input(&[("key", &key), ("block", &x)]);
                if let Some(w) = D::reference(&key, &x, false) {
                    check_eq("encrypt_block differs from the standard", &enc1(&c, &x), &w);
                }
                if let Some(w) = D::reference(&key, &x, true) {
                    check_eq("decrypt_block differs from the standard", &dec1(&c, &x), &w);
                }
            }
            // batches go through the parallel / tail code of the backends
            let n = rng.range(1, 20);
            let x = rng.plain(n * bsz);
            input(&[("key", &key), ("blocks", &x)]);
            for dec in [false, true] {
                let mut w = Vec::new();
                for i in 0..n {
                    match D::reference(&key, &x[i * bsz..(i + 1) * bsz], dec) {
                        Some(r) => w.extend(r),
                        None => return,
                    }
                }
                let mut y = x.clone();
                many(&c, &mut y, dec);
                check_eq(
                    if dec { "decrypt_blocks differs from the standard" } else { "encrypt_blocks differs from the standard" },
                    &y,
                    &w,
                );
            }
        });
    }
}

// ------------------------------------------------------------------------------------------------ C04

pub fn c04<D: Desc>() {
    set_prop("C04");
    let bsz = bs::<D::C>();
    let mut rng = Rng::for_label(&format!("C04/{}/{}", D::CRATE, D::NAME));
    let lens = D::key_lens();
    let mut ns: Vec<usize> = (0..=40).collect();
    ns.extend([47usize, 64, 81]);
    let reps = (iters() / 150).max(1);
    for _ in 0..reps {
        for &n in &ns {
            let klen = lens[rng.below(lens.len())];
            let key = rng.bytes(klen);
            let inp = rng.plain(n * bsz);
            input(&[("key", &key), ("blocks", &inp)]);
            input_add_str("n", &n.to_string());
            guard("multi-block", || {
                let Ok(c) = D::C::new_from_slice(&key) else { return };
                c04_case::<D::C>(&c, &inp, n, bsz, &mut rng);
            });
        }
    }
}

fn c04_case<C: BlockCipherEncrypt + BlockCipherDecrypt>(c: &C, inp: &[u8], n: usize, bsz: usize, rng: &mut Rng) {
    for dec in [false, true] {
        let dir = if dec { "decrypt" } else { "encrypt" };
        input_add_str("direction", dir);
        input_add_str("offset", "");
        // the per-block result
        let mut want_ = Vec::with_capacity(n * bsz);
        for i in 0..n {
            want_.extend(one(c, &inp[i * bsz..(i + 1) * bsz], dec));
        }
        // in place, slice of blocks
        let mut buf = inp.to_vec();
        many(c, &mut buf, dec);
        check_eq("*_blocks (in place) differs from per-block calls", &buf, &want_);
        // in place through InOutBuf
        let mut buf = inp.to_vec();
        if dec { dec_inout_inplace(c, &mut buf) } else { enc_inout_inplace(c, &mut buf) }
        check_eq("*_blocks_inout (in place) differs from per-block calls", &buf, &want_);
        // in place at odd offsets inside a larger byte buffer
        for _ in 0..2 {
            let off = rng.range(1, 31);
            let total = off + n * bsz + 33;
            let mut big = rng.plain(total);
            big[off..off + n * bsz].copy_from_slice(inp);
            let before = big.clone();
            many(c, &mut big[off..off + n * bsz], dec);
            input_add_str("offset", &off.to_string());
            check_eq("*_blocks (in place, unaligned) differs from per-block calls", &big[off..off + n * bsz], &want_);
            if big[..off] != before[..off] || big[off + n * bsz..] != before[off + n * bsz..] {
                fail("*_blocks (in place) wrote outside the designated blocks", "bytes around the buffer changed", "unchanged");
            }
        }
        input_add_str("offset", "");
        // buffer to buffer, separate buffers, guard bytes around the output, all alignments
        for round in 0..4 {
            let (io, oo) = if round == 0 { (0, bsz.max(16)) } else { (rng.range(0, 17), bsz.max(16) + rng.range(0, 17)) };
            let mut inbig = rng.plain(io + n * bsz + 7);
            inbig[io..io + n * bsz].copy_from_slice(inp);
            let in_before = inbig.clone();
            let mut outbig = rng.plain(oo + n * bsz + bsz.max(16) + 5);
            let out_before = outbig.clone();
            input_add_str("offset", &format!("in+{} out+{}", io, oo));
            for form in 0..2 {
                let mut ob = out_before.clone();
                let name = if form == 0 {
                    let ok = if dec {
                        dec_b2b(c, &inbig[io..io + n * bsz], &mut ob[oo..oo + n * bsz])
                    } else {
                        enc_b2b(c, &inbig[io..io + n * bsz], &mut ob[oo..oo + n * bsz])
                    };
                    if !ok {
                        fail("*_blocks_b2b returned an error for equal lengths", "Err", "Ok");
                    }
                    "*_blocks_b2b"
                } else {
                    if dec {
                        dec_inout(c, &inbig[io..io + n * bsz], &mut ob[oo..oo + n * bsz])
                    } else {
                        enc_inout(c, &inbig[io..io + n * bsz], &mut ob[oo..oo + n * bsz])
                    }
                    "*_blocks_inout"
                };
                check_eq(&format!("{} differs from per-block calls", name), &ob[oo..oo + n * bsz], &want_);
                if inbig != in_before {
                    fail(&format!("{} modified its input buffer", name), &hex(&inbig[io..io + n * bsz]), &hex(inp));
                    inbig = in_before.clone();
                }
                if ob[..oo] != out_before[..oo] || ob[oo + n * bsz..] != out_before[oo + n * bsz..] {
                    fail(&format!("{} wrote outside the designated output blocks", name), "guard bytes changed", "unchanged");
                }
            }
            outbig.clear();
        }
        // single-block buffer-to-buffer forms
        input_add_str("offset", "");
        for i in 0..n.min(3) {
            input_add_str("block_index", &i.to_string());
            let x = &inp[i * bsz..(i + 1) * bsz];
            let w = &want_[i * bsz..(i + 1) * bsz];
            for form in 0..2 {
                let off = rng.range(0, 9);
                let mut ob = rng.plain(off + bsz + 16);
                let ob0 = ob.clone();
                let xin = x.to_vec();
                match (form, dec) {
                    (0, false) => enc1_b2b(c, &xin, &mut ob[off..off + bsz]),
                    (0, true) => dec1_b2b(c, &xin, &mut ob[off..off + bsz]),
                    (_, false) => enc1_inout(c, &xin, &mut ob[off..off + bsz]),
                    (_, true) => dec1_inout(c, &xin, &mut ob[off..off + bsz]),
                }
                let name = if form == 0 { "*_block_b2b" } else { "*_block_inout" };
                check_eq(&format!("{} differs from the in-place single-block call", name), &ob[off..off + bsz], w);
                if xin != x {
                    fail(&format!("{} modified its input block", name), &hex(&xin), &hex(x));
                }
                if ob[..off] != ob0[..off] || ob[off + bsz..] != ob0[off + bsz..] {
                    fail(&format!("{} wrote outside the output block", name), "guard bytes changed", "unchanged");
                }
            }
        }
    }
}

// ------------------------------------------------------------------------------------------------ C11

/// acceptance of every slice length 0..=300, and `new(&key)` == `new_from_slice(key)`
pub fn c11_core<T: KeyInit>(lens: &[usize], probe: &dyn Fn(&T, &[u8]) -> Vec<u8>, bsz: usize, rng: &mut Rng) {
    for len in 0..=300usize {
        for _ in 0..2 {
            let key = rng.bytes(len);
            input(&[("key", &key)]);
            input_add_str("key_len", &len.to_string());
            guard("new_from_slice", || {
                let r = T::new_from_slice(&key);
                let acc = lens.contains(&len);
                if r.is_ok() != acc {
                    fail(
                        "new_from_slice accepts/rejects the wrong key length",
                        if r.is_ok() { "Ok" } else { "Err(InvalidLength)" },
                        if acc { "Ok" } else { "Err(InvalidLength)" },
                    );
                }
            });
        }
    }
    let k = ks::<T>();
    if lens.contains(&k) {
        for _ in 0..(iters() / 10).max(8) {
            let key = rng.bytes(k);
            input(&[("key", &key)]);
            guard("new vs new_from_slice", || {
                let a = T::new(&Key::<T>::try_from(&key[..]).unwrap());
                let Ok(b) = T::new_from_slice(&key) else { return };
                same_cipher("new(&key) and new_from_slice(key) give different ciphers", &a, &b, probe, bsz, rng);
            });
        }
    }
}

pub fn c11<D: Desc>() {
    set_prop("C11");
    let mut rng = Rng::for_label(&format!("C11/{}/{}", D::CRATE, D::NAME));
    c11_core::<D::C>(&D::key_lens(), &|c, x| probe_full(c, x), bs::<D::C>(), &mut rng);
}

/// two constructions that must yield the same cipher (short key vs padded key, Rc2 effective length ...)
pub fn c11_pair<T>(what: &str, a: &T, b: &T, probe: &dyn Fn(&T, &[u8]) -> Vec<u8>, bsz: usize, rng: &mut Rng) {
    same_cipher(what, a, b, probe, bsz, rng);
}

// ------------------------------------------------------------------------------------------------ C12 (clone part)

pub fn c12_clone<D: Desc>() {
    set_prop("C12");
    let bsz = bs::<D::C>();
    let mut rng = Rng::for_label(&format!("C12/{}/{}", D::CRATE, D::NAME));
    for key in key_plan(&mut rng, &D::key_lens(), (iters() / 3).max(16)) {
        input(&[("key", &key)]);
        guard("clone", || {
            let Ok(orig) = D::C::new_from_slice(&key) else { return };
            let Some(cl) = D::clone_of(&orig) else { return };
            let cl2 = D::clone_of(&cl).unwrap();
            let Ok(fresh) = D::C::new_from_slice(&key) else { return };
            same_cipher("clone differs from a freshly keyed cipher", &cl, &fresh, &|c, x| probe_full(c, x), bsz, &mut rng);
            same_cipher("clone of clone differs from a freshly keyed cipher", &cl2, &fresh, &|c, x| probe_full(c, x), bsz, &mut rng);
            same_cipher("original differs from a freshly keyed cipher after being cloned", &orig, &fresh, &|c, x| probe_full(c, x), bsz, &mut rng);
            // the clone must not depend on the original staying alive
            drop(orig);
            same_cipher("clone differs from a freshly keyed cipher once the original is dropped", &cl, &fresh, &|c, x| probe_full(c, x), bsz, &mut rng);
            // batches
            let n = rng.range(1, 12);
            let x = rng.plain(n * bsz);
            input(&[("key", &key), ("blocks", &x)]);
            for dec in [false, true] {
                let (mut a, mut b) = (x.clone(), x.clone());
                many(&cl, &mut a, dec);
                many(&fresh, &mut b, dec);
                check_eq("clone differs from a freshly keyed cipher (batch)", &a, &b);
            }
        });
    }
}

/// C12 for a family {combined C, encrypt-only E, decrypt-only D}: every construction route computes the function of
/// a freshly keyed combined cipher.
pub fn c12_family<C, E, D>(krate: &str, name: &str)
where
    C: KeyInit + BlockCipherEncrypt + BlockCipherDecrypt + Clone + From<E> + for<'a> From<&'a E>,
    E: KeyInit + KeySizeUser<KeySize = C::KeySize> + BlockCipherEncrypt + BlockSizeUser<BlockSize = C::BlockSize> + Clone,
    D: KeyInit
        + KeySizeUser<KeySize = C::KeySize>
        + BlockCipherDecrypt
        + BlockSizeUser<BlockSize = C::BlockSize>
        + Clone
        + From<E>
        + for<'a> From<&'a E>,
{
    scope(krate, name);
    set_prop("C12");
    let bsz = bs::<C>();
    let mut rng = Rng::for_label(&format!("C12F/{}/{}", krate, name));
    for _ in 0..(iters() / 3).max(16) {
        let keyb = rng.bytes(ks::<C>());
        input(&[("key", &keyb)]);
        guard("conversions", || {
            let key = Key::<C>::try_from(&keyb[..]).unwrap();
            let fresh = C::new(&key);
            let e = E::new(&key);
            let d = D::new(&key);
            let c = C::new(&key);
            let c_from_val = C::from(e.clone());
            let c_from_ref = C::from(&e);
            let d_from_val = D::from(e.clone());
            let d_from_ref = D::from(&e);
            let e_clone = e.clone();
            let e_clone2 = e_clone.clone();
            // blocks: singles and one batch
            let n = rng.range(1, 14);
            let x = rng.plain(n * bsz);
            let x1 = rng.bytes(bsz);
            input(&[("key", &keyb), ("block", &x1), ("blocks", &x)]);
            let mut want_e = x.clone();
            enc_many(&fresh, &mut want_e);
            let mut want_d = x.clone();
            dec_many(&fresh, &mut want_d);
            let want_e1 = enc1(&fresh, &x1);
            let want_d1 = dec1(&fresh, &x1);
            let chk_e = |what: &str, got1: Vec<u8>, got: Vec<u8>| {
                check_eq(&format!("{}: encrypt_block differs from a fresh combined cipher", what), &got1, &want_e1);
                check_eq(&format!("{}: encrypt_blocks differs from a fresh combined cipher", what), &got, &want_e);
            };
            let chk_d = |what: &str, got1: Vec<u8>, got: Vec<u8>| {
                check_eq(&format!("{}: decrypt_block differs from a fresh combined cipher", what), &got1, &want_d1);
                check_eq(&format!("{}: decrypt_blocks differs from a fresh combined cipher", what), &got, &want_d);
            };
            macro_rules! e_of { ($w:expr, $i:expr) => {{ let mut b = x.clone(); enc_many($i, &mut b); chk_e($w, enc1($i, &x1), b); }}; }
            macro_rules! d_of { ($w:expr, $i:expr) => {{ let mut b = x.clone(); dec_many($i, &mut b); chk_d($w, dec1($i, &x1), b); }}; }
            e_of!("Enc::new", &e);
            d_of!("Dec::new", &d);
            e_of!("combined::new", &c);
            d_of!("combined::new", &c);
            e_of!("combined::from(enc)", &c_from_val);
            d_of!("combined::from(enc)", &c_from_val);
            e_of!("combined::from(&enc)", &c_from_ref);
            d_of!("combined::from(&enc)", &c_from_ref);
            d_of!("Dec::from(enc)", &d_from_val);
            d_of!("Dec::from(&enc)", &d_from_ref);
            e_of!("Enc::clone", &e_clone);
            e_of!("Enc::clone::clone", &e_clone2);
            let d_clone = d.clone();
            d_of!("Dec::clone", &d_clone);
            let c_clone = c.clone();
            e_of!("combined::clone", &c_clone);
            d_of!("combined::clone", &c_clone);
            let cc = c_from_ref.clone();
            e_of!("combined::from(&enc).clone", &cc);
            d_of!("combined::from(&enc).clone", &cc);
            let cv = c_from_val.clone();
            e_of!("combined::from(enc).clone", &cv);
            d_of!("combined::from(enc).clone", &cv);
            let dc = d_from_ref.clone();
            d_of!("Dec::from(&enc).clone", &dc);
            let dv = d_from_val.clone();
            d_of!("Dec::from(enc).clone", &dv);
            // conversions from a CLONE of the encrypt-only instance, sources dropped before use
            let c2 = C::from(&e_clone);
            let d2 = D::from(e_clone2);
            drop(e);
            drop(e_clone);
            drop(c);
            drop(d);
            e_of!("combined::from(&enc.clone()) after dropping the sources", &c2);
            d_of!("combined::from(&enc.clone()) after dropping the sources", &c2);
            d_of!("Dec::from(enc.clone().clone()) after dropping the sources", &d2);
            e_of!("combined::clone after dropping the original", &c_clone);
            d_of!("Dec::clone after dropping the original", &d_clone);
        });
    }
}

// ------------------------------------------------------------------------------------------------ C13

pub fn c13_core<T: KeyInit>(
    expect_weak: &dyn Fn(&[u8]) -> bool,
    cands: Vec<Vec<u8>>,
    probe: &dyn Fn(&T, &[u8]) -> Vec<u8>,
    bsz: usize,
    rng: &mut Rng,
) {
    let k = ks::<T>();
    let mut keys = cands;
    for _ in 0..iters() {
        keys.push(rng.bytes(k));
    }
    for keyb in keys {
        if keyb.len() != k {
            continue;
        }
        input(&[("key", &keyb)]);
        guard("weak_key_test / new_checked", || {
            let key = Key::<T>::try_from(&keyb[..]).unwrap();
            let weak = T::weak_key_test(&key).is_err();
            let exp = expect_weak(&keyb);
            if weak != exp {
                fail(
                    "weak_key_test gives the wrong verdict",
                    if weak { "Err(WeakKeyError)" } else { "Ok" },
                    if exp { "Err(WeakKeyError)" } else { "Ok" },
                );
            }
            let nc = T::new_checked(&key);
            if nc.is_err() != weak {
                fail(
                    "new_checked disagrees with weak_key_test",
                    if nc.is_err() { "Err(WeakKeyError)" } else { "Ok" },
                    if weak { "Err(WeakKeyError)" } else { "Ok" },
                );
            }
            if nc.is_err() != exp {
                fail(
                    "new_checked gives the wrong verdict",
                    if nc.is_err() { "Err(WeakKeyError)" } else { "Ok" },
                    if exp { "Err(WeakKeyError)" } else { "Ok" },
                );
            }
            if let Ok(c) = nc {
                let plain = T::new(&key);
                same_cipher("new_checked returns a different cipher than new", &c, &plain, probe, bsz, rng);
            }
        });
    }
}

pub fn c13<D: Desc>() {
    set_prop("C13");
    let mut rng = Rng::for_label(&format!("C13/{}/{}", D::CRATE, D::NAME));
    let cands = D::weak_candidates(&mut rng);
    c13_core::<D::C>(&|k| D::expect_weak(k), cands, &|c, x| probe_full(c, x), bs::<D::C>(), &mut rng);
}

// ------------------------------------------------------------------------------------------------ C16

struct Slot<T> {
    mem: Box<MaybeUninit<T>>,
}
impl<T> Slot<T> {
    fn new() -> Slot<T> {
        let mut mem: Box<MaybeUninit<T>> = Box::new_uninit();
        unsafe { core::ptr::write_bytes(mem.as_mut_ptr() as *mut u8, 0, size_of::<T>()) };
        Slot { mem }
    }
    fn put(&mut self, v: T) {
        unsafe { self.mem.as_mut_ptr().write(v) };
    }
    fn bytes(&self) -> Vec<u8> {
        let p = self.mem.as_ptr() as *const u8;
        (0..size_of::<T>()).map(|i| unsafe { core::ptr::read_volatile(p.add(i)) }).collect()
    }
    /// what `ManuallyDrop::drop` does: run the destructor in place, keep the storage
    fn drop_in_place(&mut self) {
        unsafe { core::ptr::drop_in_place(self.mem.as_mut_ptr()) };
    }
}

#[inline(never)]
fn scrub_stack(fill: u8) {
    let mut a = [0u8; 65536];
    for x in a.iter_mut() {
        unsafe { core::ptr::write_volatile(x, fill) };
    }
    core::hint::black_box(&a);
}

struct Inst<T> {
    route: String,
    key: Vec<u8>,
    slot: Slot<T>,
    snap: Vec<u8>,
    /// index of the instance built from the same route and key bytes with different surroundings
    twin: usize,
}

/// Build instances per (route, key) in zero-initialised storage, take the set P of byte positions at which two
/// instances keyed differently (same construction route) differ, drop every instance in place and require every
/// position of P to read zero.
///
/// Padding and inactive union space are not written by construction and hold whatever the stack held; to keep such
/// bytes out of P every (route, key) is built twice: the second time from a copy of the key at another address, after
/// the stack below has been filled with another byte.  A position where the twins differ is not a function of the key
/// and is left out of P.
pub fn c16_core<T>(routes: &[(&str, &dyn Fn(&[u8]) -> Option<T>)], keys: &[Vec<u8>]) {
    let size = size_of::<T>();
    if size == 0 || keys.is_empty() {
        return;
    }
    let mut insts: Vec<Inst<T>> = Vec::new();
    for (rname, build) in routes {
        for key in keys {
            input(&[("key", key)]);
            input_add_str("route", rname);
            let first = insts.len();
            for rep in 0..2usize {
                let mut slot = Slot::<T>::new();
                let mut ok = false;
                let keycopy: Vec<u8> = if rep == 0 { Vec::new() } else { key.clone() };
                let kref: &[u8] = if rep == 0 { key } else { &keycopy };
                guard("construction", || {
                    scrub_stack(if rep == 0 { 0x00 } else { 0xa5 });
                    if let Some(v) = build(kref) {
                        slot.put(v);
                        ok = true;
                    }
                });
                if ok {
                    let snap = slot.bytes();
                    insts.push(Inst { route: rname.to_string(), key: key.clone(), slot, snap, twin: first });
                }
            }
            if insts.len() == first + 2 {
                insts[first].twin = first + 1;
            } else {
                insts.truncate(first);
            }
        }
    }
    if insts.len() < 4 {
        return;
    }
    let mut noisy = vec![false; size];
    for (i, a) in insts.iter().enumerate() {
        let b = &insts[a.twin];
        if a.twin != i {
            for p in 0..size {
                if a.snap[p] != b.snap[p] {
                    noisy[p] = true;
                }
            }
        }
    }
    // key dependence is judged among instances built by the SAME route (differently keyed, same code path)
    let mut dep = vec![false; size];
    for (i, a) in insts.iter().enumerate() {
        let Some(first) = insts.iter().position(|b| b.route == a.route) else { continue };
        if first == i {
            continue;
        }
        for p in 0..size {
            if a.snap[p] != insts[first].snap[p] && !noisy[p] {
                dep[p] = true;
            }
        }
    }
    let ndep = dep.iter().filter(|&&d| d).count();
    let nnoisy = noisy.iter().filter(|&&d| d).count();
    // drop every instance in place
    let mut afters: Vec<Vec<u8>> = Vec::with_capacity(insts.len());
    for inst in insts.iter_mut() {
        input(&[("key", &inst.key)]);
        input_add_str("route", &inst.route);
        let mut after = Vec::new();
        let slot = &mut inst.slot;
        guard("drop", || {
            slot.drop_in_place();
            after = slot.bytes();
        });
        afters.push(after);
    }
    // Storage the instance never initialised (padding, the inactive arm of a union) keeps stale stack contents, and
    // stale contents written by the constructor's own callees can be a function of the key that no twin exposes.
    // Such bytes sit in a stretch that `drop` never modifies in any instance and that also holds recognisable
    // garbage; a surviving byte in such a stretch is NOT reported (may miss a field that is never erased and borders
    // on padding; never blames uninitialised storage).
    let mut touched = vec![false; size];
    for (inst, after) in insts.iter().zip(&afters) {
        if after.len() == size {
            for p in 0..size {
                if after[p] != inst.snap[p] {
                    touched[p] = true;
                }
            }
        }
    }
    let mut uninit_like = vec![false; size];
    let mut p = 0;
    while p < size {
        if touched[p] {
            p += 1;
            continue;
        }
        let start = p;
        while p < size && !touched[p] {
            p += 1;
        }
        if (start..p).any(|q| noisy[q]) {
            for q in start..p {
                uninit_like[q] = true;
            }
        }
    }
    let nun = uninit_like.iter().filter(|&&d| d).count();
    if with(|s| s.stats) {
        let (k, t) = with(|s| (s.krate.clone(), s.ty.clone()));
        eprintln!(
            "[vp-native] C16 {}/{}: size_of {} bytes, {} instances, {} key-dependent positions, {} garbage positions, {} positions in never-written stretches",
            k, t, size, insts.len(), ndep, nnoisy, nun
        );
    }
    for (idx, (inst, after)) in insts.iter().zip(&afters).enumerate() {
        if after.len() != size {
            continue;
        }
        input(&[("key", &inst.key)]);
        input_add_str("route", &inst.route);
        input_add_str("instance", if inst.twin < idx { "second build of this key" } else { "first build of this key" });
        input_add_str("size_of", &size.to_string());
        input_add_str("key_dependent_positions", &ndep.to_string());
        input_add_str("uninitialised_looking_positions", &nun.to_string());
        let bad: Vec<usize> = (0..size).filter(|&i| dep[i] && !uninit_like[i] && after[i] != 0).collect();
        if !bad.is_empty() {
            let first = bad[0];
            input_add_str("nonzero_positions", &format!("{} (first {}, last {})", bad.len(), first, bad[bad.len() - 1]));
            let lo = first;
            let hi = (first + 16).min(size);
            fail(
                "key-dependent bytes survive drop",
                &format!("bytes[{}..{}] after drop = {} (before drop {})", lo, hi, hex(&after[lo..hi]), hex(&inst.snap[lo..hi])),
                "every key-dependent position reads 0 after drop",
            );
        }
    }
    // the storage is released without running destructors again (MaybeUninit)
}

/// keys for C16: every accepted length for small sets, otherwise the extremes and a sample; several keys per length
pub fn c16_keys(rng: &mut Rng, lens: &[usize]) -> Vec<Vec<u8>> {
    let mut pick: Vec<usize> = if lens.len() <= 14 {
        lens.to_vec()
    } else {
        let mut v = vec![lens[0], lens[1], lens[lens.len() / 2], lens[lens.len() - 2], lens[lens.len() - 1]];
        for _ in 0..7 {
            v.push(lens[rng.below(lens.len())]);
        }
        v
    };
    pick.dedup();
    let per = if pick.len() <= 3 { 6 } else { 2 };
    let mut keys = Vec::new();
    for l in pick {
        for _ in 0..per {
            keys.push(rng.plain(l));
        }
    }
    keys
}

pub fn c16<D: Desc>() {
    set_prop("C16");
    let mut rng = Rng::for_label(&format!("C16/{}/{}", D::CRATE, D::NAME));
    let keys = c16_keys(&mut rng, &D::key_lens());
    let new_ = |k: &[u8]| D::C::new_from_slice(k).ok();
    let fixed = |k: &[u8]| if k.len() == ks::<D::C>() { Some(D::C::new(kref::<D::C>(k))) } else { None };
    let cloned = |k: &[u8]| {
        let c = D::C::new_from_slice(k).ok()?;
        D::clone_of(&c)
    };
    let cloned2 = |k: &[u8]| {
        let c = D::C::new_from_slice(k).ok()?;
        let d = D::clone_of(&c)?;
        drop(c);
        D::clone_of(&d)
    };
    c16_core::<D::C>(
        &[("new_from_slice", &new_), ("new", &fixed), ("clone", &cloned), ("clone of clone", &cloned2)],
        &keys,
    );
}

// ------------------------------------------------------------------------------------------------ C19

fn leading_ident(s: &str) -> &str {
    let end = s.find(|c: char| !(c.is_ascii_alphanumeric() || c == '_')).unwrap_or(s.len());
    &s[..end]
}

/// Debug text: identical for all instances (differently keyed), leading identifier is one of `names`
pub fn c19_debug_core(texts: &[(Vec<u8>, String)], names: &[&str]) {
    if texts.is_empty() {
        return;
    }
    let first = &texts[0];
    for (key, t) in texts {
        input(&[("key", key), ("other_key", &first.0)]);
        if *t != first.1 {
            fail("Debug output depends on the key", t, &first.1);
        }
        let id = leading_ident(t);
        if !names.iter().any(|n| n.eq_ignore_ascii_case(id)) {
            fail("Debug output does not start with the type's name", t, &names.join(" | "));
            break;
        }
    }
}

pub fn c19_alg_core(name: &str, must: &[&str]) {
    input(&[]);
    if name.trim().is_empty() {
        fail("AlgorithmName is empty", name, "non-empty");
    }
    let low = name.to_ascii_lowercase();
    for m in must {
        if !low.contains(&m.to_ascii_lowercase()) {
            fail("AlgorithmName lacks a distinguishing parameter", name, &format!("contains {:?} (case-insensitive)", m));
        }
    }
}

pub fn c19<D: Desc>() {
    set_prop("C19");
    let mut rng = Rng::for_label(&format!("C19/{}/{}", D::CRATE, D::NAME));
    let mut texts = Vec::new();
    for key in key_plan(&mut rng, &D::key_lens(), 24) {
        input(&[("key", &key)]);
        guard("Debug", || {
            let Ok(c) = D::C::new_from_slice(&key) else { return };
            if let Some(t) = D::debug_of(&c) {
                texts.push((key.clone(), t));
            }
            if let Some(cl) = D::clone_of(&c) {
                if let Some(t) = D::debug_of(&cl) {
                    texts.push((key.clone(), t));
                }
            }
        });
    }
    c19_debug_core(&texts, &D::type_names());
    guard("AlgorithmName", || {
        if let Some(n) = D::alg_name() {
            c19_alg_core(&n, &D::alg_must_contain());
        }
    });
}

// ------------------------------------------------------------------------------------------------ C03 (dump mode)

/// Deterministic transcript of a type's behaviour; `vp-falsify C03` diffs the transcripts of the build configurations.
pub fn c03_dump<D: Desc>() {
    let bsz = bs::<D::C>();
    let mut rng = Rng::for_label(&format!("C03/{}/{}", D::CRATE, D::NAME));
    let mut case = 0usize;
    for key in key_plan(&mut rng, &D::key_lens(), (iters() / 4).max(24)) {
        let n = if case % 3 == 0 { 1 } else { rng.range(2, 40) };
        let x = rng.plain(n * bsz);
        let mut e = x.clone();
        let mut d = x.clone();
        let mut ok = false;
        input(&[("key", &key), ("blocks", &x)]);
        set_prop("C03");
        guard("transcript", || {
            let Ok(c) = D::C::new_from_slice(&key) else { return };
            enc_many(&c, &mut e);
            dec_many(&c, &mut d);
            ok = true;
        });
        if ok {
            println!(
                "{{\"c03\":{},\"crate\":{},\"type\":{},\"case\":{},\"key\":{},\"blocks\":{},\"enc\":{},\"dec\":{}}}",
                json_str(&format!("{}/{}/{}", D::CRATE, D::NAME, case)),
                json_str(D::CRATE),
                json_str(D::NAME),
                case,
                json_str(&hex(&key)),
                json_str(&hex(&x)),
                json_str(&hex(&e)),
                json_str(&hex(&d))
            );
        }
        case += 1;
    }
}

// ------------------------------------------------------------------------------------------------ driver per type

pub fn visit<D: Desc>() {
    scope(D::CRATE, D::NAME);
    if with(|s| s.prop == "C03") {
        c03_dump::<D>();
        return;
    }
    if want("C01") {
        c01::<D>();
    }
    if !D::REF_PROP.is_empty() && want(D::REF_PROP) {
        cref::<D>();
    }
    if want("C04") {
        c04::<D>();
    }
    if want("C12") {
        c12_clone::<D>();
    }
    if !D::WRAPPER {
        if want("C11") {
            c11::<D>();
        }
        if want("C13") {
            c13::<D>();
        }
        if want("C16") {
            c16::<D>();
        }
        if want("C19") {
            c19::<D>();
        }
    }
}
