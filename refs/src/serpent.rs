//! (reference for serpent: to be written)
