// Contracts on des/src/des.rs: the keyed DES value.
// `Des::{encrypt,decrypt}` are proved against the *contracts* of their callees: `ip`, `fp`, `round` are
// replaced by their FIPS 46-3 spec functions (licensed by the obligations c_ip, c_fp, c_round in utils.rs),
// so these obligations check the composition for EVERY value of the 16 subkeys (not only reachable ones).
//
// @module file=des/src/des.rs
use super::*;
use crate::utils::__vp_utils::{spec_gen_keys, spec_round};
use cipher::{Array, KeyInit};

pub fn shift16(k: &[u64; 16]) -> [u64; 16] {
    let mut out = [0u64; 16];
    let mut i = 0;
    while i < 16 {
        out[i] = k[i] >> 16;
        i += 1;
    }
    out
}

/// contract of Des::encrypt / Des::decrypt as spec functions (used as stubs by the callers in tdes.rs)
pub fn spec_encrypt(d: &Des, data: u64) -> u64 { bcref::des::encrypt_with(&shift16(&d.keys), data) }
pub fn spec_decrypt(d: &Des, data: u64) -> u64 { bcref::des::decrypt_with(&shift16(&d.keys), data) }

pub fn any_des() -> Des { Des { keys: kani::any() } }

// @ob name=c_des_encrypt props=C05,C20 fn=des::Des::encrypt uses=c_ip,c_fp,c_round timeout=300
#[kani::proof]
#[kani::stub(crate::utils::round, spec_round)]
#[kani::stub(crate::utils::ip, bcref::des::ip)]
#[kani::stub(crate::utils::fp, bcref::des::fp)]
#[kani::unwind(65)]
fn c_des_encrypt() {
    let d = any_des();
    let x: u64 = kani::any();
    assert!(d.encrypt(x) == spec_encrypt(&d, x));
}

// @ob name=c_des_decrypt props=C05,C20 fn=des::Des::decrypt uses=c_ip,c_fp,c_round timeout=300
#[kani::proof]
#[kani::stub(crate::utils::round, spec_round)]
#[kani::stub(crate::utils::ip, bcref::des::ip)]
#[kani::stub(crate::utils::fp, bcref::des::fp)]
#[kani::unwind(65)]
fn c_des_decrypt() {
    let d = any_des();
    let x: u64 = kani::any();
    assert!(d.decrypt(x) == spec_decrypt(&d, x));
}

// C01 from the property's own statement, on the real functions, for every value of the subkeys.
// @ob name=l_des_roundtrip props=C01 kind=lemma fn=des::Des::encrypt,des::Des::decrypt uses=c_ip,c_fp,c_round timeout=600
#[kani::proof]
#[kani::stub(crate::utils::round, spec_round)]
#[kani::stub(crate::utils::ip, bcref::des::ip)]
#[kani::stub(crate::utils::fp, bcref::des::fp)]
#[kani::unwind(65)]
fn l_des_roundtrip() {
    let d = any_des();
    let x: u64 = kani::any();
    assert!(d.decrypt(d.encrypt(x)) == x);
    assert!(d.encrypt(d.decrypt(x)) == x);
}

// The same without any stub (real ip/fp/round/f/e/p/apply_sboxes inlined), through the real key schedule.
// @ob name=l_des_roundtrip_mono props=C01 kind=lemma tier=thorough fn=des::Des::encrypt,des::Des::decrypt,des::Des::new timeout=1800
#[kani::proof]
#[kani::unwind(17)]
fn l_des_roundtrip_mono() {
    let k: [u8; 8] = kani::any();
    let d = Des::new(&Array(k));
    let x: u64 = kani::any();
    assert!(d.decrypt(d.encrypt(x)) == x);
}

// Public API: KeyInit::new + encrypt_block / decrypt_block == FIPS 46-3 DEA on big-endian words, for every key and block.
// @ob name=c_des_api_enc props=C05,C20 fn=des::Des::new,des::Des::encrypt_block uses=c_gen_keys,c_des_encrypt timeout=600
#[kani::proof]
#[kani::stub(crate::utils::gen_keys, spec_gen_keys)]
#[kani::stub(Des::encrypt, spec_encrypt)]
#[kani::unwind(65)]
fn c_des_api_enc() {
    let k: [u8; 8] = kani::any();
    let b: [u8; 8] = kani::any();
    let d = Des::new(&Array(k));
    let mut blk = Array(b);
    cipher::BlockCipherEncrypt::encrypt_block(&d, &mut blk);
    assert!(u64::from_be_bytes(blk.0) == bcref::des::encrypt(u64::from_be_bytes(k), u64::from_be_bytes(b)));
}

// @ob name=c_des_api_dec props=C05,C20 fn=des::Des::new,des::Des::decrypt_block uses=c_gen_keys,c_des_decrypt timeout=600
#[kani::proof]
#[kani::stub(crate::utils::gen_keys, spec_gen_keys)]
#[kani::stub(Des::decrypt, spec_decrypt)]
#[kani::unwind(65)]
fn c_des_api_dec() {
    let k: [u8; 8] = kani::any();
    let b: [u8; 8] = kani::any();
    let d = Des::new(&Array(k));
    let mut blk = Array(b);
    cipher::BlockCipherDecrypt::decrypt_block(&d, &mut blk);
    assert!(u64::from_be_bytes(blk.0) == bcref::des::decrypt(u64::from_be_bytes(k), u64::from_be_bytes(b)));
}

// Monolithic alternate: no stubs at all, real code against the table-driven reference, every key and block.
// @ob name=c_des_api_mono props=C05 tier=thorough fn=des::Des::new,des::Des::encrypt_block timeout=1800
#[kani::proof]
#[kani::unwind(65)]
fn c_des_api_mono() {
    let k: [u8; 8] = kani::any();
    let b: [u8; 8] = kani::any();
    let d = Des::new(&Array(k));
    let mut blk = Array(b);
    cipher::BlockCipherEncrypt::encrypt_block(&d, &mut blk);
    assert!(u64::from_be_bytes(blk.0) == bcref::des::encrypt(u64::from_be_bytes(k), u64::from_be_bytes(b)));
}

// Complementation property on the keyed value, from the modular facts: subkeys complement (l_complement_keys),
// round commutes with complement (l_complement_round), so with round replaced by its spec:
// @ob name=l_des_complement props=C05 kind=lemma fn=des::Des::encrypt uses=c_round,c_ip,c_fp,l_complement_keys timeout=900
#[kani::proof]
#[kani::stub(crate::utils::round, spec_round)]
#[kani::stub(crate::utils::ip, bcref::des::ip)]
#[kani::stub(crate::utils::fp, bcref::des::fp)]
#[kani::unwind(65)]
fn l_des_complement() {
    let d = any_des();
    let mut dc = any_des();
    let mut i = 0;
    while i < 16 {
        // hypothesis established by l_complement_keys for keys produced by gen_keys(!k)
        kani::assume(d.keys[i] & 0xFFFF == 0);
        dc.keys[i] = !d.keys[i] & 0xFFFF_FFFF_FFFF_0000;
        i += 1;
    }
    let x: u64 = kani::any();
    assert!(dc.encrypt(!x) == !d.encrypt(x));
}
