//! rc2: Rc2 with 1..=128 byte keys against RFC 2268 (bcref::rc2), C09, including effective key lengths 1..=1024;
//! C11: new_from_slice(key) == new_with_eff_key_len(key, 8 * len).
use crate::generic::*;
use crate::util::*;
use bcref::rc2 as r;
use cipher::KeyInit;

desc!(DRc2: rc2::Rc2, "rc2", "Rc2", 1..=128usize, "C09", [clone, debug, alg], names ["Rc2"], alg ["rc2"],
    |k, b, dec| Some(if dec { r::decrypt(k, 8 * k.len(), &arr(b)) } else { r::encrypt(k, 8 * k.len(), &arr(b)) }.to_vec()));

fn c09_eff_len() {
    set_prop(if want("C09") { "C09" } else { "C01" });
    let mut rng = Rng::for_label("C09/rc2/eff");
    for i in 0..(2 * iters()).max(1100) {
        let len = rng.range(1, 128);
        let key = rng.bytes(len);
        // every effective length once, then random ones
        let t1 = if i < 1024 { i + 1 } else { rng.range(1, 1024) };
        let x = rng.bytes(8);
        input(&[("key", &key), ("block", &x)]);
        input_add_str("eff_key_len", &t1.to_string());
        guard("new_with_eff_key_len", || {
            let c = rc2::Rc2::new_with_eff_key_len(&key, t1);
            if want("C09") {
                set_prop("C09");
                check_eq("encrypt_block differs from RFC 2268 at this effective key length", &enc1(&c, &x), &r::encrypt(&key, t1, &arr(&x)));
                check_eq("decrypt_block differs from RFC 2268 at this effective key length", &dec1(&c, &x), &r::decrypt(&key, t1, &arr(&x)));
            }
            if want("C01") {
                set_prop("C01");
                check_eq("decrypt(encrypt(x)) != x", &dec1(&c, &enc1(&c, &x)), &x);
                check_eq("encrypt(decrypt(x)) != x", &enc1(&c, &dec1(&c, &x)), &x);
            }
        });
    }
}

fn c11_eff() {
    set_prop("C11");
    let mut rng = Rng::for_label("C11/rc2/eff");
    for len in 1..=128usize {
        let key = rng.bytes(len);
        input(&[("key", &key)]);
        guard("slice vs effective length", || {
            let Ok(a) = rc2::Rc2::new_from_slice(&key) else { return };
            let b = rc2::Rc2::new_with_eff_key_len(&key, 8 * len);
            same_cipher("new_from_slice(key) and new_with_eff_key_len(key, 8*len) give different ciphers", &a, &b, &|c, x| probe_full(c, x), 8, &mut rng);
        });
    }
}

pub fn run() {
    visit::<DRc2>();
    if want("C09") || want("C01") {
        c09_eff_len();
    }
    if want("C11") {
        c11_eff();
    }
}
