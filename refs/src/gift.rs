//! GIFT-128 after Banik, Pandey, Peyrin, Sasaki, Sim, Todo, "GIFT: A Small Present" (CHES 2017, IACR ePrint
//! 2017/622): section 2.1 (round function: SubCells with the 4-bit S-box GS, PermBits with P_128, AddRoundKey),
//! section 2.2 (key schedule and round constants), 40 rounds.  Bitwise definition, exactly as in the paper
//! (not the bitsliced / fixsliced form): the state is b_127 ... b_0 held in a `u128` with b_0 the least
//! significant bit, nibble w_i = b_{4i+3} b_{4i+2} b_{4i+1} b_{4i}; the key state is k_7 || ... || k_0 (16-bit words)
//! held in a `u128` with k_0 the least significant word.  On bytes both are big-endian (first byte = b_127..b_120),
//! the convention of the designers' test vectors.

pub const ROUNDS: usize = 40;

/// Table 1: GS
pub const GS: [u8; 16] = [0x1, 0xa, 0x4, 0xc, 0x6, 0xf, 0x3, 0x9, 0x2, 0xd, 0xb, 0x7, 0x5, 0x0, 0x8, 0xe];
pub const GS_INV: [u8; 16] = invert(&GS);
const fn invert(s: &[u8; 16]) -> [u8; 16] {
    let mut inv = [0u8; 16];
    let mut i = 0;
    while i < 16 {
        inv[s[i] as usize] = i as u8;
        i += 1;
    }
    inv
}

/// P_128(i) = 4 floor(i/16) + 32 ((3 floor((i mod 16)/4) + (i mod 4)) mod 4) + (i mod 4)
pub const fn p128(i: usize) -> usize { 4 * (i / 16) + 32 * ((3 * ((i % 16) / 4) + (i % 4)) % 4) + (i % 4) }

/// SubCells: w_i <- GS(w_i) for all 32 nibbles
pub fn sub_cells(s: u128) -> u128 {
    let mut out = 0u128;
    let mut i = 0;
    while i < 32 {
        out |= (GS[((s >> (4 * i)) & 0xf) as usize] as u128) << (4 * i);
        i += 1;
    }
    out
}
pub fn inv_sub_cells(s: u128) -> u128 {
    let mut out = 0u128;
    let mut i = 0;
    while i < 32 {
        out |= (GS_INV[((s >> (4 * i)) & 0xf) as usize] as u128) << (4 * i);
        i += 1;
    }
    out
}
/// PermBits: b_{P(i)} <- b_i
pub fn perm_bits(s: u128) -> u128 {
    let mut out = 0u128;
    let mut i = 0;
    while i < 128 {
        out |= ((s >> i) & 1) << p128(i);
        i += 1;
    }
    out
}
pub fn inv_perm_bits(s: u128) -> u128 {
    let mut out = 0u128;
    let mut i = 0;
    while i < 128 {
        out |= ((s >> p128(i)) & 1) << i;
        i += 1;
    }
    out
}

/// bit i of x placed at state bit 4 i + off
pub fn spread(x: u32, off: u32) -> u128 {
    let mut out = 0u128;
    let mut i = 0;
    while i < 32 {
        out |= (((x >> i) & 1) as u128) << (4 * i + off);
        i += 1;
    }
    out
}

/// AddRoundKey of GIFT-128 with RK = U || V (u_31..u_0, v_31..v_0):  b_{4i+2} ^= u_i,  b_{4i+1} ^= v_i
pub fn add_round_key(s: u128, u: u32, v: u32) -> u128 { s ^ spread(u, 2) ^ spread(v, 1) }

/// Round constants: 6-bit affine LFSR (c5,c4,c3,c2,c1,c0) <- (c4,c3,c2,c1,c0, c5 xor c4 xor 1), initialised to zero
/// and "updated before being used in a given round"; `round_constant(r)` is the value used in round r = 0..39
pub const fn lfsr_next(c: u8) -> u8 { ((c << 1) & 0x3e) | (((c >> 5) ^ (c >> 4) ^ 1) & 1) }
pub const fn round_constant(r: usize) -> u8 {
    let mut c = 0u8;
    let mut i = 0;
    while i <= r {
        c = lfsr_next(c);
        i += 1;
    }
    c
}
/// the constant addition: b_{n-1} ^= 1, b_23 ^= c5, b_19 ^= c4, b_15 ^= c3, b_11 ^= c2, b_7 ^= c1, b_3 ^= c0
pub fn add_constant(s: u128, c: u8) -> u128 {
    let mut out = s ^ (1u128 << 127);
    let mut i = 0;
    while i < 6 {
        out ^= (((c >> i) & 1) as u128) << (4 * i + 3);
        i += 1;
    }
    out
}

/// k_i of the key state k_7 || ... || k_0
pub const fn kword(k: u128, i: usize) -> u16 { (k >> (16 * i)) as u16 }
/// round key extraction for GIFT-128: U = k_5 || k_4, V = k_1 || k_0
pub const fn round_key(k: u128) -> (u32, u32) {
    (((kword(k, 5) as u32) << 16) | kword(k, 4) as u32, ((kword(k, 1) as u32) << 16) | kword(k, 0) as u32)
}
/// key state update: k_7 || k_6 || ... || k_1 || k_0  <-  k_1 >>> 2 || k_0 >>> 12 || k_7 || ... || k_3 || k_2
pub const fn key_update(k: u128) -> u128 {
    let k1 = kword(k, 1).rotate_right(2);
    let k0 = kword(k, 0).rotate_right(12);
    ((k1 as u128) << 112) | ((k0 as u128) << 96) | (k >> 32)
}
/// (U, V) for rounds 0..39
pub fn key_schedule(key: u128) -> [(u32, u32); ROUNDS] {
    let mut out = [(0u32, 0u32); ROUNDS];
    let mut k = key;
    let mut r = 0;
    while r < ROUNDS {
        out[r] = round_key(k);
        k = key_update(k);
        r += 1;
    }
    out
}

/// one round: SubCells, PermBits, AddRoundKey (round key and round constant)
pub fn round(s: u128, u: u32, v: u32, c: u8) -> u128 { add_constant(add_round_key(perm_bits(sub_cells(s)), u, v), c) }
pub fn inv_round(s: u128, u: u32, v: u32, c: u8) -> u128 { inv_sub_cells(inv_perm_bits(add_round_key(add_constant(s, c), u, v))) }

/// the same round with arbitrary 32-bit masks on the three bit positions of every nibble that the round key
/// and constant can reach (bit 2: U, bit 1: V, bit 3: constants); `round` is the instance
/// mask3 = 1 << 31 | c5..c0 at bits 5..0
pub fn round_masks(s: u128, m2: u32, m1: u32, m3: u32) -> u128 { perm_bits(sub_cells(s)) ^ spread(m2, 2) ^ spread(m1, 1) ^ spread(m3, 3) }
pub fn inv_round_masks(s: u128, m2: u32, m1: u32, m3: u32) -> u128 { inv_sub_cells(inv_perm_bits(s ^ spread(m2, 2) ^ spread(m1, 1) ^ spread(m3, 3))) }
/// the constant of round r as a bit-3 mask
pub const fn constant_mask(r: usize) -> u32 { (1u32 << 31) | round_constant(r) as u32 }

pub fn encrypt_with(rk: &[(u32, u32); ROUNDS], p: u128) -> u128 {
    let mut s = p;
    let mut r = 0;
    while r < ROUNDS {
        s = round(s, rk[r].0, rk[r].1, round_constant(r));
        r += 1;
    }
    s
}
pub fn decrypt_with(rk: &[(u32, u32); ROUNDS], c: u128) -> u128 {
    let mut s = c;
    let mut r = ROUNDS;
    while r > 0 {
        r -= 1;
        s = inv_round(s, rk[r].0, rk[r].1, round_constant(r));
    }
    s
}
pub fn encrypt(key: u128, p: u128) -> u128 { encrypt_with(&key_schedule(key), p) }
pub fn decrypt(key: u128, c: u128) -> u128 { decrypt_with(&key_schedule(key), c) }

pub fn encrypt_bytes(key: &[u8; 16], block: &[u8; 16]) -> [u8; 16] {
    encrypt(u128::from_be_bytes(*key), u128::from_be_bytes(*block)).to_be_bytes()
}
pub fn decrypt_bytes(key: &[u8; 16], block: &[u8; 16]) -> [u8; 16] {
    decrypt(u128::from_be_bytes(*key), u128::from_be_bytes(*block)).to_be_bytes()
}

#[cfg(test)]
mod tests {
    use super::*;

    /// section 2.2: the listed constants of the first rounds
    #[test]
    fn round_constants_as_listed() {
        let listed: [u8; 48] = [
            0x01, 0x03, 0x07, 0x0F, 0x1F, 0x3E, 0x3D, 0x3B, 0x37, 0x2F, 0x1E, 0x3C, 0x39, 0x33, 0x27, 0x0E, 0x1D, 0x3A, 0x35, 0x2B, 0x16,
            0x2C, 0x18, 0x30, 0x21, 0x02, 0x05, 0x0B, 0x17, 0x2E, 0x1C, 0x38, 0x31, 0x23, 0x06, 0x0D, 0x1B, 0x36, 0x2D, 0x1A, 0x34, 0x29,
            0x12, 0x24, 0x08, 0x11, 0x22, 0x04,
        ];
        for r in 0..48 {
            assert_eq!(round_constant(r), listed[r]);
        }
    }

    /// Table 3 (P_128), first and last rows as printed, and P_128 is a permutation
    #[test]
    fn perm_table() {
        let row0: [usize; 16] = [0, 33, 66, 99, 96, 1, 34, 67, 64, 97, 2, 35, 32, 65, 98, 3];
        for i in 0..16 {
            assert_eq!(p128(i), row0[i]);
        }
        let row7: [usize; 16] = [28, 61, 94, 127, 124, 29, 62, 95, 92, 125, 30, 63, 60, 93, 126, 31];
        for i in 0..16 {
            assert_eq!(p128(112 + i), row7[i]);
        }
        let mut seen = [false; 128];
        for i in 0..128 {
            assert!(!seen[p128(i)]);
            seen[p128(i)] = true;
        }
        assert_eq!(inv_perm_bits(perm_bits(0x0123456789abcdef_fedcba9876543210)), 0x0123456789abcdef_fedcba9876543210);
        assert_eq!(inv_sub_cells(sub_cells(0x0123456789abcdef_fedcba9876543210)), 0x0123456789abcdef_fedcba9876543210);
    }

    /// the designers' test vectors for GIFT-128 (github.com/giftcipher/gift, test vectors; also /repo/gift/tests)
    #[test]
    fn designers_vectors() {
        let v: [(u128, u128, u128); 3] = [
            (0, 0, 0xcd0bd738388ad3f668b15a36ceb6ff92),
            (0xfedcba9876543210fedcba9876543210, 0xfedcba9876543210fedcba9876543210, 0x8422241a6dbf5a9346af468409ee0152),
            (0xd0f5c59a7700d3e799028fa9f90ad837, 0xe39c141fa57dba43f08a85b6a91f86c1, 0x13ede67cbdcc3dbf400a62d6977265ea),
        ];
        for (k, p, c) in v {
            assert_eq!(encrypt(k, p), c);
            assert_eq!(decrypt(k, c), p);
            assert_eq!(encrypt_bytes(&k.to_be_bytes(), &p.to_be_bytes()), c.to_be_bytes());
            assert_eq!(decrypt_bytes(&k.to_be_bytes(), &c.to_be_bytes()), p.to_be_bytes());
        }
    }

    #[test]
    fn round_masks_instance() {
        let s = 0x00112233445566778899aabbccddeeffu128;
        for r in 0..40 {
            assert_eq!(round(s, 0xdeadbeef, 0x01234567, round_constant(r)), round_masks(s, 0xdeadbeef, 0x01234567, constant_mask(r)));
            assert_eq!(inv_round_masks(round_masks(s, 1, 2, 3), 1, 2, 3), s);
        }
    }
}
