//! (reference for aria: to be written)
