//! Camellia, written from RFC 3713 "A Description of the Camellia Encryption Algorithm" (April 2004), following
//! the RFC's own structure and names:
//!   section 2.2   key scheduling part (KL, KR, KA, KB, Sigma1..6, subkeys kw / k / ke)
//!   section 2.3.1 encryption for 128-bit keys (18 rounds), 2.3.2 for 192/256-bit keys (24 rounds)
//!   section 2.3.3 decryption (same procedure, subkeys swapped)
//!   section 2.4   F-function, FL- and FLINV-functions, 2.4.1 SBOX1 table
//!   appendix A    test vectors (unit tests below)
//! 128-bit quantities (M, KL, KR, KA, KB) are `u128`, 64-bit data and subkeys `u64`, exactly the RFC's
//! "(X <<< n) >> 64" and "(X <<< n) & MASK64" notation.  Byte strings are big-endian.
//!
//! SBOX1 is a snapshot of the pinned tree (/repo/camellia/src/consts.rs, first table); SBOX2, SBOX3, SBOX4 are
//! *computed* from it by the RFC's definitions SBOX2[x] = SBOX1[x] <<< 1, SBOX3[x] = SBOX1[x] <<< 7,
//! SBOX4[x] = SBOX1[x <<< 1].  A few entries printed in the RFC are checked in the tests.

pub const MASK8: u64 = 0xff;
pub const MASK32: u64 = 0xffff_ffff;
pub const MASK64: u128 = 0xffff_ffff_ffff_ffff;

/// section 2.2
pub const SIGMA1: u64 = 0xA09E667F3BCC908B;
pub const SIGMA2: u64 = 0xB67AE8584CAA73B2;
pub const SIGMA3: u64 = 0xC6EF372FE94F82BE;
pub const SIGMA4: u64 = 0x54FF53A5F1D36F1C;
pub const SIGMA5: u64 = 0x10E527FADE682D1D;
pub const SIGMA6: u64 = 0xB05688C2B3E6C1FD;

/// section 2.4.1
pub const SBOX1: [u8; 256] = [
    0x70, 0x82, 0x2c, 0xec, 0xb3, 0x27, 0xc0, 0xe5, 0xe4, 0x85, 0x57, 0x35, 0xea, 0x0c, 0xae, 0x41,
    0x23, 0xef, 0x6b, 0x93, 0x45, 0x19, 0xa5, 0x21, 0xed, 0x0e, 0x4f, 0x4e, 0x1d, 0x65, 0x92, 0xbd,
    0x86, 0xb8, 0xaf, 0x8f, 0x7c, 0xeb, 0x1f, 0xce, 0x3e, 0x30, 0xdc, 0x5f, 0x5e, 0xc5, 0x0b, 0x1a,
    0xa6, 0xe1, 0x39, 0xca, 0xd5, 0x47, 0x5d, 0x3d, 0xd9, 0x01, 0x5a, 0xd6, 0x51, 0x56, 0x6c, 0x4d,
    0x8b, 0x0d, 0x9a, 0x66, 0xfb, 0xcc, 0xb0, 0x2d, 0x74, 0x12, 0x2b, 0x20, 0xf0, 0xb1, 0x84, 0x99,
    0xdf, 0x4c, 0xcb, 0xc2, 0x34, 0x7e, 0x76, 0x05, 0x6d, 0xb7, 0xa9, 0x31, 0xd1, 0x17, 0x04, 0xd7,
    0x14, 0x58, 0x3a, 0x61, 0xde, 0x1b, 0x11, 0x1c, 0x32, 0x0f, 0x9c, 0x16, 0x53, 0x18, 0xf2, 0x22,
    0xfe, 0x44, 0xcf, 0xb2, 0xc3, 0xb5, 0x7a, 0x91, 0x24, 0x08, 0xe8, 0xa8, 0x60, 0xfc, 0x69, 0x50,
    0xaa, 0xd0, 0xa0, 0x7d, 0xa1, 0x89, 0x62, 0x97, 0x54, 0x5b, 0x1e, 0x95, 0xe0, 0xff, 0x64, 0xd2,
    0x10, 0xc4, 0x00, 0x48, 0xa3, 0xf7, 0x75, 0xdb, 0x8a, 0x03, 0xe6, 0xda, 0x09, 0x3f, 0xdd, 0x94,
    0x87, 0x5c, 0x83, 0x02, 0xcd, 0x4a, 0x90, 0x33, 0x73, 0x67, 0xf6, 0xf3, 0x9d, 0x7f, 0xbf, 0xe2,
    0x52, 0x9b, 0xd8, 0x26, 0xc8, 0x37, 0xc6, 0x3b, 0x81, 0x96, 0x6f, 0x4b, 0x13, 0xbe, 0x63, 0x2e,
    0xe9, 0x79, 0xa7, 0x8c, 0x9f, 0x6e, 0xbc, 0x8e, 0x29, 0xf5, 0xf9, 0xb6, 0x2f, 0xfd, 0xb4, 0x59,
    0x78, 0x98, 0x06, 0x6a, 0xe7, 0x46, 0x71, 0xba, 0xd4, 0x25, 0xab, 0x42, 0x88, 0xa2, 0x8d, 0xfa,
    0x72, 0x07, 0xb9, 0x55, 0xf8, 0xee, 0xac, 0x0a, 0x36, 0x49, 0x2a, 0x68, 0x3c, 0x38, 0xf1, 0xa4,
    0x40, 0x28, 0xd3, 0x7b, 0xbb, 0xc9, 0x43, 0xc1, 0x15, 0xe3, 0xad, 0xf4, 0x77, 0xc7, 0x80, 0x9e,
];
pub const fn sbox1(x: u8) -> u8 { SBOX1[x as usize] }
/// SBOX2[x] = SBOX1[x] <<< 1
pub const fn sbox2(x: u8) -> u8 { SBOX1[x as usize].rotate_left(1) }
/// SBOX3[x] = SBOX1[x] <<< 7
pub const fn sbox3(x: u8) -> u8 { SBOX1[x as usize].rotate_left(7) }
/// SBOX4[x] = SBOX1[x <<< 1]
pub const fn sbox4(x: u8) -> u8 { SBOX1[x.rotate_left(1) as usize] }

const fn tabulate(which: u8) -> [u8; 256] {
    let mut t = [0u8; 256];
    let mut i = 0;
    while i < 256 {
        t[i] = match which {
            2 => sbox2(i as u8),
            3 => sbox3(i as u8),
            _ => sbox4(i as u8),
        };
        i += 1;
    }
    t
}
pub const SBOX2: [u8; 256] = tabulate(2);
pub const SBOX3: [u8; 256] = tabulate(3);
pub const SBOX4: [u8; 256] = tabulate(4);

/// section 2.4: F-function.
pub fn f(f_in: u64, ke: u64) -> u64 {
    let x = f_in ^ ke;
    let mut t1 = (x >> 56) as u8;
    let mut t2 = ((x >> 48) & MASK8) as u8;
    let mut t3 = ((x >> 40) & MASK8) as u8;
    let mut t4 = ((x >> 32) & MASK8) as u8;
    let mut t5 = ((x >> 24) & MASK8) as u8;
    let mut t6 = ((x >> 16) & MASK8) as u8;
    let mut t7 = ((x >> 8) & MASK8) as u8;
    let mut t8 = (x & MASK8) as u8;
    t1 = SBOX1[t1 as usize];
    t2 = SBOX2[t2 as usize];
    t3 = SBOX3[t3 as usize];
    t4 = SBOX4[t4 as usize];
    t5 = SBOX2[t5 as usize];
    t6 = SBOX3[t6 as usize];
    t7 = SBOX4[t7 as usize];
    t8 = SBOX1[t8 as usize];
    let y1 = t1 ^ t3 ^ t4 ^ t6 ^ t7 ^ t8;
    let y2 = t1 ^ t2 ^ t4 ^ t5 ^ t7 ^ t8;
    let y3 = t1 ^ t2 ^ t3 ^ t5 ^ t6 ^ t8;
    let y4 = t2 ^ t3 ^ t4 ^ t5 ^ t6 ^ t7;
    let y5 = t1 ^ t2 ^ t6 ^ t7 ^ t8;
    let y6 = t2 ^ t3 ^ t5 ^ t7 ^ t8;
    let y7 = t3 ^ t4 ^ t5 ^ t6 ^ t8;
    let y8 = t1 ^ t4 ^ t5 ^ t6 ^ t7;
    ((y1 as u64) << 56) | ((y2 as u64) << 48) | ((y3 as u64) << 40) | ((y4 as u64) << 32) | ((y5 as u64) << 24) | ((y6 as u64) << 16) | ((y7 as u64) << 8) | y8 as u64
}

/// section 2.4: FL-function.
pub const fn fl(fl_in: u64, ke: u64) -> u64 {
    let mut x1 = (fl_in >> 32) as u32;
    let mut x2 = (fl_in & MASK32) as u32;
    let k1 = (ke >> 32) as u32;
    let k2 = (ke & MASK32) as u32;
    x2 = x2 ^ (x1 & k1).rotate_left(1);
    x1 = x1 ^ (x2 | k2);
    ((x1 as u64) << 32) | x2 as u64
}

/// section 2.4: FLINV-function.
pub const fn flinv(flinv_in: u64, ke: u64) -> u64 {
    let mut y1 = (flinv_in >> 32) as u32;
    let mut y2 = (flinv_in & MASK32) as u32;
    let k1 = (ke >> 32) as u32;
    let k2 = (ke & MASK32) as u32;
    y1 = y1 ^ (y2 | k2);
    y2 = y2 ^ (y1 & k1).rotate_left(1);
    ((y1 as u64) << 32) | y2 as u64
}

/// section 2.2: KA from KL, KR.
pub fn ka_of(kl: u128, kr: u128) -> u128 {
    let mut d1 = ((kl ^ kr) >> 64) as u64;
    let mut d2 = ((kl ^ kr) & MASK64) as u64;
    d2 = d2 ^ f(d1, SIGMA1);
    d1 = d1 ^ f(d2, SIGMA2);
    d1 = d1 ^ (kl >> 64) as u64;
    d2 = d2 ^ (kl & MASK64) as u64;
    d2 = d2 ^ f(d1, SIGMA3);
    d1 = d1 ^ f(d2, SIGMA4);
    ((d1 as u128) << 64) | d2 as u128
}

/// section 2.2: KB from KA, KR (only used for 192/256-bit keys).
pub fn kb_of(ka: u128, kr: u128) -> u128 {
    let mut d1 = ((ka ^ kr) >> 64) as u64;
    let mut d2 = ((ka ^ kr) & MASK64) as u64;
    d2 = d2 ^ f(d1, SIGMA5);
    d1 = d1 ^ f(d2, SIGMA6);
    ((d1 as u128) << 64) | d2 as u128
}

/// "(X <<< n) >> 64"
pub const fn hi(x: u128, n: u32) -> u64 { (x.rotate_left(n) >> 64) as u64 }
/// "(X <<< n) & MASK64"
pub const fn lo(x: u128, n: u32) -> u64 { (x.rotate_left(n) & MASK64) as u64 }

/// Subkeys for 128-bit keys: kw1..kw4, k1..k18, ke1..ke4 (index 0 = the RFC's index 1).
#[derive(Clone, Copy, PartialEq, Eq, Debug)]
pub struct Subkeys18 {
    pub kw: [u64; 4],
    pub k: [u64; 18],
    pub ke: [u64; 4],
}
/// Subkeys for 192- and 256-bit keys: kw1..kw4, k1..k24, ke1..ke6.
#[derive(Clone, Copy, PartialEq, Eq, Debug)]
pub struct Subkeys24 {
    pub kw: [u64; 4],
    pub k: [u64; 24],
    pub ke: [u64; 6],
}

/// section 2.2, 128-bit keys: subkeys from KL and KA.
pub fn subkeys_128(kl: u128, ka: u128) -> Subkeys18 {
    let mut s = Subkeys18 { kw: [0; 4], k: [0; 18], ke: [0; 4] };
    s.kw[0] = hi(kl, 0);
    s.kw[1] = lo(kl, 0);
    s.k[0] = hi(ka, 0);
    s.k[1] = lo(ka, 0);
    s.k[2] = hi(kl, 15);
    s.k[3] = lo(kl, 15);
    s.k[4] = hi(ka, 15);
    s.k[5] = lo(ka, 15);
    s.ke[0] = hi(ka, 30);
    s.ke[1] = lo(ka, 30);
    s.k[6] = hi(kl, 45);
    s.k[7] = lo(kl, 45);
    s.k[8] = hi(ka, 45);
    s.k[9] = lo(kl, 60);
    s.k[10] = hi(ka, 60);
    s.k[11] = lo(ka, 60);
    s.ke[2] = hi(kl, 77);
    s.ke[3] = lo(kl, 77);
    s.k[12] = hi(kl, 94);
    s.k[13] = lo(kl, 94);
    s.k[14] = hi(ka, 94);
    s.k[15] = lo(ka, 94);
    s.k[16] = hi(kl, 111);
    s.k[17] = lo(kl, 111);
    s.kw[2] = hi(ka, 111);
    s.kw[3] = lo(ka, 111);
    s
}

/// section 2.2, 192/256-bit keys: subkeys from KL, KR, KA, KB.
pub fn subkeys_256(kl: u128, kr: u128, ka: u128, kb: u128) -> Subkeys24 {
    let mut s = Subkeys24 { kw: [0; 4], k: [0; 24], ke: [0; 6] };
    s.kw[0] = hi(kl, 0);
    s.kw[1] = lo(kl, 0);
    s.k[0] = hi(kb, 0);
    s.k[1] = lo(kb, 0);
    s.k[2] = hi(kr, 15);
    s.k[3] = lo(kr, 15);
    s.k[4] = hi(ka, 15);
    s.k[5] = lo(ka, 15);
    s.ke[0] = hi(kr, 30);
    s.ke[1] = lo(kr, 30);
    s.k[6] = hi(kb, 30);
    s.k[7] = lo(kb, 30);
    s.k[8] = hi(kl, 45);
    s.k[9] = lo(kl, 45);
    s.k[10] = hi(ka, 45);
    s.k[11] = lo(ka, 45);
    s.ke[2] = hi(kl, 60);
    s.ke[3] = lo(kl, 60);
    s.k[12] = hi(kr, 60);
    s.k[13] = lo(kr, 60);
    s.k[14] = hi(kb, 60);
    s.k[15] = lo(kb, 60);
    s.k[16] = hi(kl, 77);
    s.k[17] = lo(kl, 77);
    s.ke[4] = hi(ka, 77);
    s.ke[5] = lo(ka, 77);
    s.k[18] = hi(kr, 94);
    s.k[19] = lo(kr, 94);
    s.k[20] = hi(ka, 94);
    s.k[21] = lo(ka, 94);
    s.k[22] = hi(kl, 111);
    s.k[23] = lo(kl, 111);
    s.kw[2] = hi(kb, 111);
    s.kw[3] = lo(kb, 111);
    s
}

/// section 2.2: (KL, KR) from the key K.  128: KL = K, KR = 0.  192: KL = K >> 64, KR = ((K & MASK64) << 64) | ~(K & MASK64).
/// 256: KL = K >> 128, KR = K & MASK128.
pub fn klkr_128(key: &[u8; 16]) -> (u128, u128) { (u128::from_be_bytes(*key), 0) }
pub fn klkr_192(key: &[u8; 24]) -> (u128, u128) {
    let mut kl = 0u128;
    let mut i = 0;
    while i < 16 {
        kl = (kl << 8) | key[i] as u128;
        i += 1;
    }
    let mut low = 0u64; // K & MASK64
    while i < 24 {
        low = (low << 8) | key[i] as u64;
        i += 1;
    }
    (kl, ((low as u128) << 64) | (!low) as u128)
}
pub fn klkr_256(key: &[u8; 32]) -> (u128, u128) {
    let mut kl = 0u128;
    let mut kr = 0u128;
    let mut i = 0;
    while i < 16 {
        kl = (kl << 8) | key[i] as u128;
        kr = (kr << 8) | key[i + 16] as u128;
        i += 1;
    }
    (kl, kr)
}

pub fn key_schedule_128(key: &[u8; 16]) -> Subkeys18 {
    let (kl, kr) = klkr_128(key);
    subkeys_128(kl, ka_of(kl, kr))
}
pub fn key_schedule_192(key: &[u8; 24]) -> Subkeys24 {
    let (kl, kr) = klkr_192(key);
    let ka = ka_of(kl, kr);
    subkeys_256(kl, kr, ka, kb_of(ka, kr))
}
pub fn key_schedule_256(key: &[u8; 32]) -> Subkeys24 {
    let (kl, kr) = klkr_256(key);
    let ka = ka_of(kl, kr);
    subkeys_256(kl, kr, ka, kb_of(ka, kr))
}

/// Two Feistel rounds "D2 = D2 ^ F(D1, k_a); D1 = D1 ^ F(D2, k_b)".
pub fn round_pair(d: (u64, u64), ka: u64, kb: u64) -> (u64, u64) {
    let (mut d1, mut d2) = d;
    d2 = d2 ^ f(d1, ka);
    d1 = d1 ^ f(d2, kb);
    (d1, d2)
}

/// section 2.3.1: encryption with 18 rounds on M (128 bits).
pub fn crypt_18(s: &Subkeys18, m: u128) -> u128 {
    let mut d1 = (m >> 64) as u64;
    let mut d2 = (m & MASK64) as u64;
    d1 = d1 ^ s.kw[0]; // prewhitening
    d2 = d2 ^ s.kw[1];
    let mut g = 0;
    while g < 3 {
        let mut r = 0;
        while r < 3 {
            // rounds 6g + 2r + 1, 6g + 2r + 2
            (d1, d2) = round_pair((d1, d2), s.k[6 * g + 2 * r], s.k[6 * g + 2 * r + 1]);
            r += 1;
        }
        if g < 2 {
            d1 = fl(d1, s.ke[2 * g]);
            d2 = flinv(d2, s.ke[2 * g + 1]);
        }
        g += 1;
    }
    d2 = d2 ^ s.kw[2]; // postwhitening
    d1 = d1 ^ s.kw[3];
    ((d2 as u128) << 64) | d1 as u128
}

/// section 2.3.2: encryption with 24 rounds.
pub fn crypt_24(s: &Subkeys24, m: u128) -> u128 {
    let mut d1 = (m >> 64) as u64;
    let mut d2 = (m & MASK64) as u64;
    d1 = d1 ^ s.kw[0];
    d2 = d2 ^ s.kw[1];
    let mut g = 0;
    while g < 4 {
        let mut r = 0;
        while r < 3 {
            (d1, d2) = round_pair((d1, d2), s.k[6 * g + 2 * r], s.k[6 * g + 2 * r + 1]);
            r += 1;
        }
        if g < 3 {
            d1 = fl(d1, s.ke[2 * g]);
            d2 = flinv(d2, s.ke[2 * g + 1]);
        }
        g += 1;
    }
    d2 = d2 ^ s.kw[2];
    d1 = d1 ^ s.kw[3];
    ((d2 as u128) << 64) | d1 as u128
}

/// section 2.3.3, 128-bit keys: kw1 <-> kw3, kw2 <-> kw4, k1 <-> k18, ..., k9 <-> k10, ke1 <-> ke4, ke2 <-> ke3.
pub fn swap_18(s: &Subkeys18) -> Subkeys18 {
    let mut t = Subkeys18 { kw: [s.kw[2], s.kw[3], s.kw[0], s.kw[1]], k: [0; 18], ke: [0; 4] };
    let mut i = 0;
    while i < 18 {
        t.k[i] = s.k[17 - i];
        i += 1;
    }
    let mut i = 0;
    while i < 4 {
        t.ke[i] = s.ke[3 - i];
        i += 1;
    }
    t
}
/// section 2.3.3, 192/256-bit keys: kw1 <-> kw3, kw2 <-> kw4, k1 <-> k24, ..., ke1 <-> ke6, ke2 <-> ke5, ke3 <-> ke4.
pub fn swap_24(s: &Subkeys24) -> Subkeys24 {
    let mut t = Subkeys24 { kw: [s.kw[2], s.kw[3], s.kw[0], s.kw[1]], k: [0; 24], ke: [0; 6] };
    let mut i = 0;
    while i < 24 {
        t.k[i] = s.k[23 - i];
        i += 1;
    }
    let mut i = 0;
    while i < 6 {
        t.ke[i] = s.ke[5 - i];
        i += 1;
    }
    t
}

pub fn encrypt_with_18(s: &Subkeys18, m: u128) -> u128 { crypt_18(s, m) }
pub fn decrypt_with_18(s: &Subkeys18, c: u128) -> u128 { crypt_18(&swap_18(s), c) }
pub fn encrypt_with_24(s: &Subkeys24, m: u128) -> u128 { crypt_24(s, m) }
pub fn decrypt_with_24(s: &Subkeys24, c: u128) -> u128 { crypt_24(&swap_24(s), c) }

pub fn encrypt_128(key: &[u8; 16], block: &[u8; 16]) -> [u8; 16] { crypt_18(&key_schedule_128(key), u128::from_be_bytes(*block)).to_be_bytes() }
pub fn decrypt_128(key: &[u8; 16], block: &[u8; 16]) -> [u8; 16] { decrypt_with_18(&key_schedule_128(key), u128::from_be_bytes(*block)).to_be_bytes() }
pub fn encrypt_192(key: &[u8; 24], block: &[u8; 16]) -> [u8; 16] { crypt_24(&key_schedule_192(key), u128::from_be_bytes(*block)).to_be_bytes() }
pub fn decrypt_192(key: &[u8; 24], block: &[u8; 16]) -> [u8; 16] { decrypt_with_24(&key_schedule_192(key), u128::from_be_bytes(*block)).to_be_bytes() }
pub fn encrypt_256(key: &[u8; 32], block: &[u8; 16]) -> [u8; 16] { crypt_24(&key_schedule_256(key), u128::from_be_bytes(*block)).to_be_bytes() }
pub fn decrypt_256(key: &[u8; 32], block: &[u8; 16]) -> [u8; 16] { decrypt_with_24(&key_schedule_256(key), u128::from_be_bytes(*block)).to_be_bytes() }

#[cfg(test)]
mod tests {
    use super::*;

    fn hex<const N: usize>(s: &str) -> [u8; N] {
        let b = s.as_bytes();
        let mut out = [0u8; N];
        let mut i = 0;
        while i < N {
            let h = (b[2 * i] as char).to_digit(16).unwrap() as u8;
            let l = (b[2 * i + 1] as char).to_digit(16).unwrap() as u8;
            out[i] = (h << 4) | l;
            i += 1;
        }
        out
    }

    /// RFC 3713 appendix A
    #[test]
    fn rfc3713_128() {
        let k: [u8; 16] = hex("0123456789abcdeffedcba9876543210");
        let p: [u8; 16] = hex("0123456789abcdeffedcba9876543210");
        let c: [u8; 16] = hex("67673138549669730857065648eabe43");
        assert_eq!(encrypt_128(&k, &p), c);
        assert_eq!(decrypt_128(&k, &c), p);
    }
    #[test]
    fn rfc3713_192() {
        let k: [u8; 24] = hex("0123456789abcdeffedcba98765432100011223344556677");
        let p: [u8; 16] = hex("0123456789abcdeffedcba9876543210");
        let c: [u8; 16] = hex("b4993401b3e996f84ee5cee7d79b09b9");
        assert_eq!(encrypt_192(&k, &p), c);
        assert_eq!(decrypt_192(&k, &c), p);
    }
    #[test]
    fn rfc3713_256() {
        let k: [u8; 32] = hex("0123456789abcdeffedcba987654321000112233445566778899aabbccddeeff");
        let p: [u8; 16] = hex("0123456789abcdeffedcba9876543210");
        let c: [u8; 16] = hex("9acc237dff16d76c20ef7c919e3a7509");
        assert_eq!(encrypt_256(&k, &p), c);
        assert_eq!(decrypt_256(&k, &c), p);
    }
    /// corner entries of the table printed in section 2.4.1 and of the derived tables
    #[test]
    fn sbox_entries() {
        assert_eq!(SBOX1[0], 112);
        assert_eq!(SBOX1[1], 130);
        assert_eq!(SBOX1[15], 65);
        assert_eq!(SBOX1[16], 35);
        assert_eq!(SBOX1[255], 158);
        assert_eq!(SBOX2[0], 224);
        assert_eq!(SBOX3[0], 56);
        assert_eq!(SBOX4[0], 112);
        assert_eq!(SBOX4[1], 44);
        let mut seen = [false; 256];
        for v in SBOX1 { seen[v as usize] = true; }
        assert!(seen.iter().all(|b| *b));
    }
    /// FL and FLINV are mutually inverse for every subkey (spot values)
    #[test]
    fn fl_inverse() {
        let mut x = 0x0123456789abcdefu64;
        let mut k = 0xfedcba9876543210u64;
        let mut i = 0;
        while i < 1000 {
            assert_eq!(flinv(fl(x, k), k), x);
            assert_eq!(fl(flinv(x, k), k), x);
            x = x.wrapping_mul(6364136223846793005).wrapping_add(1442695040888963407);
            k = k.wrapping_mul(2862933555777941757).wrapping_add(3037000493);
            i += 1;
        }
    }
}
