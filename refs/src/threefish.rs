//! (reference for threefish: to be written)
