// Contracts on kuznyechik/src/compact_soft/backends.rs (build configuration --cfg kuznyechik_backend="compact_soft"):
// byte-wise implementation; every function against GOST R 34.12-2015 (bcref::kuznyechik).
//
// @module file=kuznyechik/src/compact_soft/backends.rs
// @config name=compact rustflags='--cfg kuznyechik_backend="compact_soft"'
use super::*;
use crate::utils::__vp_utils::spec_l_step;
use bcref::kuznyechik as kz;
use crate::__vp_lemmas::{ruf, tuf};
use crate::utils::__vp_utils::CREF;
use cipher::Array;

pub fn any_block() -> Block { Array(kani::any()) }
pub fn any_round_keys() -> RoundKeys {
    let raw: [[u8; 16]; 10] = kani::any();
    raw.map(Array)
}
pub fn raw_keys(k: &RoundKeys) -> [[u8; 16]; 10] {
    let mut out = [[0u8; 16]; 10];
    let mut i = 0;
    while i < 10 {
        out[i] = k[i].0;
        i += 1;
    }
    out
}

/// contracts of lsx / lsx_inv as spec functions
pub fn spec_lsx(block: &mut Block, key: &Block) { block.0 = kz::lsx(&key.0, &block.0); }
pub fn spec_lsx_inv(block: &mut Block, key: &Block) { block.0 = kz::x_linv_sinv(&key.0, &block.0); }

// @ob name=c_x cfg=compact props=C07,C20 fn=kuznyechik::compact_soft::backends::x timeout=120
#[kani::proof]
#[kani::unwind(17)]
fn c_x() {
    let mut a = any_block();
    let b = any_block();
    let a0 = a.0;
    x(&mut a, &b);
    assert!(kz::eq(&a.0, &kz::x(&b.0, &a0)));
}

// @ob name=c_lsx cfg=compact props=C07,C20 fn=kuznyechik::compact_soft::backends::lsx uses=c_l_step_*,c_ell_tables timeout=600
#[kani::proof]
#[kani::stub(crate::utils::l_step, spec_l_step)]
#[kani::stub(bcref::kuznyechik::ell, ruf::ell)]
#[kani::unwind(151)]
fn c_lsx() {
    let mut b = any_block();
    let k = any_block();
    let b0 = b.0;
    lsx(&mut b, &k);
    assert!(kz::eq(&b.0, &kz::lsx(&k.0, &b0)));
}

// @ob name=c_lsx_inv cfg=compact props=C07,C20 fn=kuznyechik::compact_soft::backends::lsx_inv uses=c_l_step_*,c_ell_tables timeout=600
#[kani::proof]
#[kani::stub(crate::utils::l_step, spec_l_step)]
#[kani::stub(bcref::kuznyechik::ell, ruf::ell)]
#[kani::unwind(151)]
fn c_lsx_inv() {
    let mut b = any_block();
    let k = any_block();
    let b0 = b.0;
    lsx_inv(&mut b, &k);
    assert!(kz::eq(&b.0, &kz::x_linv_sinv(&k.0, &b0)));
}

// @ob name=c_get_c cfg=compact props=C07,C20 kind=exhaustive fn=kuznyechik::compact_soft::backends::get_c uses=c_keygen timeout=300
#[kani::proof]
#[kani::unwind(33)]
fn c_get_c() {
    let mut n = 0;
    while n < 32 {
        assert!(kz::eq(&get_c(n).0, &CREF[n]));
        n += 1;
    }
}
pub fn spec_get_c(n: usize) -> Block { Array(kz::c(n + 1)) }

/// contract of f(k1, k2, n): eight applications of F with C_{8n+1} .. C_{8n+8} on the pair (a1, a0) = (k1, k2)
pub fn spec_f(k1: &mut Block, k2: &mut Block, n: usize) {
    let (mut a1, mut a0) = (k1.0, k2.0);
    let mut t = 1;
    while t <= 8 {
        let (n1, n0) = kz::f(&kz::c(8 * n + t), &a1, &a0);
        a1 = n1;
        a0 = n0;
        t += 1;
    }
    k1.0 = a1;
    k2.0 = a0;
}

// f against eight applications of the standard's F: lsx and get_c are replaced by their contracts, and the reference LSX
// that then occurs on both sides is the transcript oracle `tuf` (real side recorded, reference side replayed); C_i are
// read from the checked table CREF on both sides.
// @ob name=c_f cfg=compact props=C07,C20 fn=kuznyechik::compact_soft::backends::f uses=c_lsx,c_get_c,c_cref_lo,c_cref_hi timeout=600
#[kani::proof]
#[kani::stub(lsx, spec_lsx)]
#[kani::stub(get_c, spec_get_c)]
#[kani::stub(bcref::kuznyechik::lsx, tuf::lsx)]
#[kani::stub(bcref::kuznyechik::c, crate::utils::__vp_utils::cref_lookup)]
#[kani::unwind(17)]
fn c_f() {
    let ks: [[[u8; 16]; 2]; 4] = kani::any();
    let mut out = [[[0u8; 16]; 2]; 4];
    let mut n = 0;
    while n < 4 {
        let (mut k1, mut k2) = (Array(ks[n][0]), Array(ks[n][1]));
        f(&mut k1, &mut k2, n);
        out[n] = [k1.0, k2.0];
        n += 1;
    }
    tuf::start_replay();
    let mut n = 0;
    while n < 4 {
        let (mut s1, mut s2) = (Array(ks[n][0]), Array(ks[n][1]));
        spec_f(&mut s1, &mut s2, n);
        assert!(kz::eq(&out[n][0], &s1.0) && kz::eq(&out[n][1], &s2.0));
        n += 1;
    }
    assert!(tuf::all_replayed());
}

// @ob name=c_expand cfg=compact props=C07,C20 fn=kuznyechik::compact_soft::backends::expand uses=c_f,c_cref_lo,c_cref_hi timeout=600
#[kani::proof]
#[kani::stub(f, spec_f)]
#[kani::stub(bcref::kuznyechik::lsx, tuf::lsx)]
#[kani::stub(bcref::kuznyechik::c, crate::utils::__vp_utils::cref_lookup)]
#[kani::unwind(33)]
fn c_expand() {
    let key: [u8; 32] = kani::any();
    let rk = expand(&Array(key));
    tuf::start_replay();
    let spec = kz::key_schedule(&key);
    assert!(tuf::all_replayed());
    let mut i = 0;
    while i < 10 {
        assert!(kz::eq(&rk[i].0, &spec[i]));
        i += 1;
    }
}

pub fn enc_block(rk: &RoundKeys, b: [u8; 16]) -> [u8; 16] {
    let inp = Array(b);
    let mut out = Array([0u8; 16]);
    cipher::BlockCipherEncBackend::encrypt_block(&EncBackend(rk), cipher::InOut::from((&inp, &mut out)));
    out.0
}
pub fn dec_block(rk: &RoundKeys, b: [u8; 16]) -> [u8; 16] {
    let inp = Array(b);
    let mut out = Array([0u8; 16]);
    cipher::BlockCipherDecBackend::decrypt_block(&DecBackend(rk), cipher::InOut::from((&inp, &mut out)));
    out.0
}

// for every value of the ten round keys (not only reachable ones) and every block
// @ob name=c_enc_block cfg=compact props=C07,C20 fn=kuznyechik::compact_soft::backends::EncBackend::encrypt_block uses=c_lsx,c_x timeout=900
#[kani::proof]
#[kani::stub(lsx, spec_lsx)]
#[kani::stub(bcref::kuznyechik::lsx, ruf::lsx)]
#[kani::unwind(151)]
fn c_enc_block() {
    let rk = any_round_keys();
    let b: [u8; 16] = kani::any();
    assert!(kz::eq(&enc_block(&rk, b), &kz::encrypt_with(&raw_keys(&rk), &b)));
}

// @ob name=c_dec_block cfg=compact props=C07,C20 fn=kuznyechik::compact_soft::backends::DecBackend::decrypt_block uses=c_lsx_inv,c_x timeout=900
#[kani::proof]
#[kani::stub(lsx_inv, spec_lsx_inv)]
#[kani::stub(bcref::kuznyechik::x_linv_sinv, ruf::x_linv_sinv)]
#[kani::unwind(151)]
fn c_dec_block() {
    let rk = any_round_keys();
    let b: [u8; 16] = kani::any();
    assert!(kz::eq(&dec_block(&rk, b), &kz::decrypt_with(&raw_keys(&rk), &b)));
}

// ---- uninterpreted stand-ins with the real signatures, for the plumbing obligations in api_compact.rs
include!("@VERIF@/contracts/kuznyechik/uf_common.inc");
pub fn uf_expand(key: &Key) -> RoundKeys {
    let raw: [[u8; 16]; 10] = unsafe { core::mem::transmute(ufs::k2rk(&key.0)) };
    raw.map(Array)
}
pub fn uf_lsx(block: &mut Block, key: &Block) { block.0 = ufs::blk(&block.0, &key.0, 1); }
pub fn uf_lsx_inv(block: &mut Block, key: &Block) { block.0 = ufs::blk(&block.0, &key.0, 2); }

// ---- contract of key expansion as a spec function with the real signature (stub for api_compact.rs)
pub fn spec_expand(key: &Key) -> RoundKeys { kz::key_schedule(&key.0).map(Array) }
