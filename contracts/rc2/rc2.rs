// Contracts on rc2/src/lib.rs (the whole crate: one type, `Rc2`) against bcref::rc2 (RFC 2268).
//
//   key expansion     Rc2::expand_key == RFC 2268 section 2 for every key of the ENUMERATED (length, effective bits)
//                     pairs below (kind=bounded); the general statement (symbolic lengths) is a non-registered candidate
//   round helpers     mix / mash / reverse_mix / reverse_mash == mixing / mashing / r-mixing / r-mashing round,
//                     for every state (64 key words), block and admissible j
//   block functions   encrypt_block / decrypt_block == section 3.4 / 4.4 for every state (helpers replaced by their specs)
//   round trip        over the helper contracts and the helper inverse lemmas (uninterpreted inverse pairs)
//   constructors      new_with_eff_key_len / new_from_slice / new hand (key, T1) to expand_key; slice == 8 x len
//
// @module file=rc2/src/lib.rs
// @config name=zeroize features=zeroize
use super::*;
use cipher::{Array, KeyInit};
include!("@VERIF@/contracts/_common/common.rs");
include!("@VERIF@/contracts/cast5/group_macros.rs");

pub fn any_rc2() -> Rc2 { Rc2 { keys: kani::any() } }
fn snap(c: &Rc2) -> [u16; 64] { c.keys }
pub fn eq64(a: &[u16; 64], b: &[u16; 64]) -> bool {
    let mut ok = true;
    let mut i = 0;
    while i < 64 {
        ok &= a[i] == b[i];
        i += 1;
    }
    ok
}
fn same(a: &Rc2, b: &Rc2) -> bool { eq64(&a.keys, &b.keys) }
fn eqr(a: &[u16; 4], b: &[u16; 4]) -> bool { a[0] == b[0] && a[1] == b[1] && a[2] == b[2] && a[3] == b[3] }

// ---------------------------------------------------------------- key expansion (C09, C20)
// PITABLE is the RFC's table
// @ob name=x_rc2_pitable props=C09 kind=exhaustive fn=rc2::consts::PI_TABLE timeout=300
#[kani::proof]
#[kani::unwind(258)]
fn x_rc2_pitable() {
    let mut i = 0;
    while i < 256 {
        assert!(PI_TABLE[i] == bcref::rc2::PITABLE[i]);
        i += 1;
    }
}

macro_rules! expand {
    ($name:ident, $len:expr, $t1:expr) => {
        #[kani::proof]
        #[kani::unwind(130)]
        fn $name() {
            let k: [u8; $len] = kani::any();
            let r = Rc2::expand_key(&k[..], $t1);
            let s = bcref::rc2::expand_key(&k[..], $t1);
            assert!(eq64(&r, &s));
        }
    };
}
// Measured: the cost grows linearly with the number of table steps (about 5 s per PITABLE lookup pair with CaDiCaL;
// kissat, z3 and cvc5 are slower): a full 128-byte buffer needs ~25 min, hence the thorough tier for general lengths.
// The quick tier exercises each phase of section 2 separately for every key:
//   T = 1 (127 steps of phase 1, all 256 keys), T1 = 1024 with T close to 128 (phase 1, few steps, phase 2 is one lookup).
// @ob name=c_rc2_expand_t1_e8 props=C09,C20 kind=bounded bound="key length 1 byte, effective length 8 bits; every key" fn=rc2::Rc2::expand_key timeout=600
expand!(c_rc2_expand_t1_e8, 1, 8);
// @ob name=c_rc2_expand_t1_e1024 props=C09,C20 kind=bounded bound="key length 1 byte, effective length 1024 bits; every key" fn=rc2::Rc2::expand_key timeout=600
expand!(c_rc2_expand_t1_e1024, 1, 1024);
// @ob name=c_rc2_expand_t124_e1024 props=C09,C20 kind=bounded bound="key length 124 bytes, effective length 1024 bits; every key" fn=rc2::Rc2::expand_key timeout=600
expand!(c_rc2_expand_t124_e1024, 124, 1024);
// @ob name=c_rc2_expand_t112_e1024 props=C09,C20 kind=bounded bound="key length 112 bytes, effective length 1024 bits; every key" fn=rc2::Rc2::expand_key timeout=600
expand!(c_rc2_expand_t112_e1024, 112, 1024);
// @ob name=c_rc2_expand_t96_e1024 props=C09,C20 kind=bounded bound="key length 96 bytes, effective length 1024 bits; every key" fn=rc2::Rc2::expand_key timeout=900
expand!(c_rc2_expand_t96_e1024, 96, 1024);
// @ob name=c_rc2_expand_t64_e1024 props=C09,C20 kind=bounded tier=thorough bound="key length 64 bytes, effective length 1024 bits; every key" fn=rc2::Rc2::expand_key timeout=1800
expand!(c_rc2_expand_t64_e1024, 64, 1024);
// (did not discharge within 3600 s in the thorough-tier run of 2026-10-04 (10 solvers in parallel): unregistered) @-ob name=c_rc2_expand_t8_e64 props=C09,C20 kind=bounded tier=thorough bound="key length 8 bytes, effective length 64 bits; every key" fn=rc2::Rc2::expand_key timeout=3600
expand!(c_rc2_expand_t8_e64, 8, 64);

// Effective lengths that are not multiples of 8 (T8 = ceil(T1/8), TM = 255 mod 2^(8+T1-8*T8)): every residue mod 8 at both
// ends of the range and the two odd values the RFC's vectors use; 1-byte keys, every key.
// @ob name=c_rc2_expand_t1_e1b props=C09,C20 kind=bounded bound="key length 1 byte, effective length 1 bits; every key" fn=rc2::Rc2::expand_key timeout=600
expand!(c_rc2_expand_t1_e1b, 1, 1);
// @ob name=c_rc2_expand_t1_e2b props=C09,C20 kind=bounded bound="key length 1 byte, effective length 2 bits; every key" fn=rc2::Rc2::expand_key timeout=600
expand!(c_rc2_expand_t1_e2b, 1, 2);
// @ob name=c_rc2_expand_t1_e3b props=C09,C20 kind=bounded bound="key length 1 byte, effective length 3 bits; every key" fn=rc2::Rc2::expand_key timeout=600
expand!(c_rc2_expand_t1_e3b, 1, 3);
// @ob name=c_rc2_expand_t1_e4b props=C09,C20 kind=bounded bound="key length 1 byte, effective length 4 bits; every key" fn=rc2::Rc2::expand_key timeout=600
expand!(c_rc2_expand_t1_e4b, 1, 4);
// @ob name=c_rc2_expand_t1_e5b props=C09,C20 kind=bounded bound="key length 1 byte, effective length 5 bits; every key" fn=rc2::Rc2::expand_key timeout=600
expand!(c_rc2_expand_t1_e5b, 1, 5);
// @ob name=c_rc2_expand_t1_e6b props=C09,C20 kind=bounded bound="key length 1 byte, effective length 6 bits; every key" fn=rc2::Rc2::expand_key timeout=600
expand!(c_rc2_expand_t1_e6b, 1, 6);
// @ob name=c_rc2_expand_t1_e7b props=C09,C20 kind=bounded bound="key length 1 byte, effective length 7 bits; every key" fn=rc2::Rc2::expand_key timeout=600
expand!(c_rc2_expand_t1_e7b, 1, 7);
// @ob name=c_rc2_expand_t1_e12b props=C09,C20 kind=bounded bound="key length 1 byte, effective length 12 bits; every key" fn=rc2::Rc2::expand_key timeout=600
expand!(c_rc2_expand_t1_e12b, 1, 12);
// @ob name=c_rc2_expand_t1_e63b props=C09,C20 kind=bounded bound="key length 1 byte, effective length 63 bits; every key" fn=rc2::Rc2::expand_key timeout=600
expand!(c_rc2_expand_t1_e63b, 1, 63);
// @ob name=c_rc2_expand_t1_e129b props=C09,C20 kind=bounded bound="key length 1 byte, effective length 129 bits; every key" fn=rc2::Rc2::expand_key timeout=600
expand!(c_rc2_expand_t1_e129b, 1, 129);
// @ob name=c_rc2_expand_t1_e1018b props=C09,C20 kind=bounded bound="key length 1 byte, effective length 1018 bits; every key" fn=rc2::Rc2::expand_key timeout=600
expand!(c_rc2_expand_t1_e1018b, 1, 1018);
// @ob name=c_rc2_expand_t1_e1020b props=C09,C20 kind=bounded bound="key length 1 byte, effective length 1020 bits; every key" fn=rc2::Rc2::expand_key timeout=600
expand!(c_rc2_expand_t1_e1020b, 1, 1020);
// @ob name=c_rc2_expand_t1_e1021b props=C09,C20 kind=bounded bound="key length 1 byte, effective length 1021 bits; every key" fn=rc2::Rc2::expand_key timeout=600
expand!(c_rc2_expand_t1_e1021b, 1, 1021);
// @ob name=c_rc2_expand_t1_e1023b props=C09,C20 kind=bounded bound="key length 1 byte, effective length 1023 bits; every key" fn=rc2::Rc2::expand_key timeout=600
expand!(c_rc2_expand_t1_e1023b, 1, 1023);

// Candidates that were NOT run to completion in the contributing session (expected ~25-40 min each by the linear
// scaling above); they are deliberately not registered as obligations (`@candidate` is ignored by the ledger):
// @candidate name=c_rc2_expand_t5_e40 tier=thorough timeout=3600
expand!(c_rc2_expand_t5_e40, 5, 40);
// @candidate name=c_rc2_expand_t8_e63 tier=thorough timeout=3600
expand!(c_rc2_expand_t8_e63, 8, 63);
// @candidate name=c_rc2_expand_t16_e64 tier=thorough timeout=3600
expand!(c_rc2_expand_t16_e64, 16, 64);
// @candidate name=c_rc2_expand_t16_e128 tier=thorough timeout=3600
expand!(c_rc2_expand_t16_e128, 16, 128);
// @candidate name=c_rc2_expand_t32_e256 tier=thorough timeout=3600
expand!(c_rc2_expand_t32_e256, 32, 256);
// @candidate name=c_rc2_expand_t33_e129 tier=thorough timeout=3600
expand!(c_rc2_expand_t33_e129, 33, 129);
// @candidate name=c_rc2_expand_t128_e1 tier=thorough timeout=3600
expand!(c_rc2_expand_t128_e1, 128, 1);
// @candidate name=c_rc2_expand_t128_e1024 tier=thorough timeout=3600
expand!(c_rc2_expand_t128_e1024, 128, 1024);

// Every key length 1..=128 and every effective length 1..=1024 at once (symbolic loop bounds on both sides).
// @candidate name=c_rc2_expand_symbolic props=C09,C20 tier=thorough fn=rc2::Rc2::expand_key timeout=3600
#[kani::proof]
#[kani::unwind(130)]
fn c_rc2_expand_symbolic() {
    let buf: [u8; 128] = kani::any();
    let n: usize = kani::any();
    let t1: usize = kani::any();
    kani::assume(1 <= n && n <= 128 && 1 <= t1 && t1 <= 1024);
    kani::cover!(n == 128 && t1 == 1024);
    kani::cover!(n == 1 && t1 == 1);
    let r = Rc2::expand_key(&buf[..n], t1);
    let s = bcref::rc2::expand_key_buf(&buf, n, t1);
    assert!(eq64(&r, &s));
}

// ---------------------------------------------------------------- round helpers (C09, C20)
pub fn spec_mix(c: &Rc2, r: &mut [u16; 4], j: &mut usize) {
    *r = bcref::rc2::mixing_round(*r, &c.keys, *j);
    *j += 4;
}
pub fn spec_mash(c: &Rc2, r: &mut [u16; 4]) { *r = bcref::rc2::mashing_round(*r, &c.keys); }
pub fn spec_rmix(c: &Rc2, r: &mut [u16; 4], j: &mut usize) {
    *r = bcref::rc2::r_mixing_round(*r, &c.keys, *j);
    *j = j.wrapping_sub(4);
}
pub fn spec_rmash(c: &Rc2, r: &mut [u16; 4]) { *r = bcref::rc2::r_mashing_round(*r, &c.keys); }

// @ob name=c_rc2_mix props=C09,C20 fn=rc2::Rc2::mix timeout=300
#[kani::proof]
#[kani::unwind(6)]
fn c_rc2_mix() {
    let c = any_rc2();
    let r0: [u16; 4] = kani::any();
    let j0: usize = kani::any();
    kani::assume(j0 % 4 == 0 && j0 <= 60); // the values the 16 call sites produce (j = 0, 4, ..., 60)
    kani::cover!(j0 == 60);
    let (mut r, mut j) = (r0, j0);
    c.mix(&mut r, &mut j);
    let (mut s, mut i) = (r0, j0);
    spec_mix(&c, &mut s, &mut i);
    assert!(eqr(&r, &s) && j == i);
}
// @ob name=c_rc2_mash props=C09,C20 fn=rc2::Rc2::mash timeout=300
#[kani::proof]
#[kani::unwind(6)]
fn c_rc2_mash() {
    let c = any_rc2();
    let r0: [u16; 4] = kani::any();
    let mut r = r0;
    c.mash(&mut r);
    let mut s = r0;
    spec_mash(&c, &mut s);
    assert!(eqr(&r, &s));
}
// @ob name=c_rc2_reverse_mix props=C09,C20 fn=rc2::Rc2::reverse_mix timeout=300
#[kani::proof]
#[kani::unwind(6)]
fn c_rc2_reverse_mix() {
    let c = any_rc2();
    let r0: [u16; 4] = kani::any();
    let j0: usize = kani::any();
    kani::assume(j0 % 4 == 3 && j0 <= 63); // j = 63, 59, ..., 3
    kani::cover!(j0 == 3);
    let (mut r, mut j) = (r0, j0);
    c.reverse_mix(&mut r, &mut j);
    let (mut s, mut i) = (r0, j0);
    spec_rmix(&c, &mut s, &mut i);
    assert!(eqr(&r, &s) && j == i);
}
// @ob name=c_rc2_reverse_mash props=C09,C20 fn=rc2::Rc2::reverse_mash timeout=300
#[kani::proof]
#[kani::unwind(6)]
fn c_rc2_reverse_mash() {
    let c = any_rc2();
    let r0: [u16; 4] = kani::any();
    let mut r = r0;
    c.reverse_mash(&mut r);
    let mut s = r0;
    spec_rmash(&c, &mut s);
    assert!(eqr(&r, &s));
}

// ---------------------------------------------------------------- block functions (C09, C20)
pub fn spec_enc_block(c: &Rc2, mut block: InOut<'_, '_, Block<Rc2>>) {
    let b = block.get_in().0;
    *block.get_out() = Array(bcref::rc2::encrypt_with(&c.keys, &b));
}
pub fn spec_dec_block(c: &Rc2, mut block: InOut<'_, '_, Block<Rc2>>) {
    let b = block.get_in().0;
    *block.get_out() = Array(bcref::rc2::decrypt_with(&c.keys, &b));
}

// The real helpers are replaced by their contracts (the reference's round functions, c_rc2_mix .. c_rc2_reverse_mash);
// the reference's round functions themselves are uninterpreted here (`ufr`): what is checked is that the block
// functions apply the same rounds, to the same data, with the same j, in the same order as sections 3.4 / 4.4.
// @ob name=c_rc2_enc_state props=C09,C20 fn=rc2::Rc2::encrypt_block uses=c_rc2_mix,c_rc2_mash timeout=600
#[kani::proof]
#[kani::stub(Rc2::mix, ufr::mix)]
#[kani::stub(Rc2::mash, ufr::mash)]
#[kani::stub(bcref::rc2::mixing_round, ufr::mixing_round)]
#[kani::stub(bcref::rc2::mashing_round, ufr::mashing_round)]
#[kani::unwind(66)]
fn c_rc2_enc_state() {
    let c = any_rc2();
    let b: [u8; 8] = kani::any();
    let mut blk = Array(b);
    cipher::BlockCipherEncrypt::encrypt_block(&c, &mut blk);
    let r = bcref::rc2::encrypt_with(&c.keys, &b);
    assert!(u64::from_le_bytes(blk.0) == u64::from_le_bytes(r));
}
// @ob name=c_rc2_dec_state props=C09,C20 fn=rc2::Rc2::decrypt_block uses=c_rc2_reverse_mix,c_rc2_reverse_mash timeout=600
#[kani::proof]
#[kani::stub(Rc2::reverse_mix, ufr::rmix)]
#[kani::stub(Rc2::reverse_mash, ufr::rmash)]
#[kani::stub(bcref::rc2::r_mixing_round, ufr::r_mixing_round)]
#[kani::stub(bcref::rc2::r_mashing_round, ufr::r_mashing_round)]
#[kani::unwind(66)]
fn c_rc2_dec_state() {
    let c = any_rc2();
    let b: [u8; 8] = kani::any();
    let mut blk = Array(b);
    cipher::BlockCipherDecrypt::decrypt_block(&c, &mut blk);
    let r = bcref::rc2::decrypt_with(&c.keys, &b);
    assert!(u64::from_le_bytes(blk.0) == u64::from_le_bytes(r));
}
// the same with nothing replaced
// (not run to completion in the contributing session: not registered)
// @candidate name=c_rc2_mono_enc_state props=C09,C20 tier=thorough fn=rc2::Rc2::encrypt_block,rc2::Rc2::mix,rc2::Rc2::mash timeout=1800
#[kani::proof]
#[kani::unwind(18)]
fn c_rc2_mono_enc_state() {
    let c = any_rc2();
    let b: [u8; 8] = kani::any();
    let mut blk = Array(b);
    cipher::BlockCipherEncrypt::encrypt_block(&c, &mut blk);
    let r = bcref::rc2::encrypt_with(&c.keys, &b);
    assert!(u64::from_le_bytes(blk.0) == u64::from_le_bytes(r));
}
// (not run to completion in the contributing session: not registered)
// @candidate name=c_rc2_mono_dec_state props=C09,C20 tier=thorough fn=rc2::Rc2::decrypt_block,rc2::Rc2::reverse_mix,rc2::Rc2::reverse_mash timeout=1800
#[kani::proof]
#[kani::unwind(18)]
fn c_rc2_mono_dec_state() {
    let c = any_rc2();
    let b: [u8; 8] = kani::any();
    let mut blk = Array(b);
    cipher::BlockCipherDecrypt::decrypt_block(&c, &mut blk);
    let r = bcref::rc2::decrypt_with(&c.keys, &b);
    assert!(u64::from_le_bytes(blk.0) == u64::from_le_bytes(r));
}

// ---------------------------------------------------------------- constructors and the public API on bytes
/// Uninterpreted key expansion (key bytes, length, effective bits) -> 64 words, standing for BOTH
/// Rc2::expand_key and bcref::rc2::expand_key (licensed by c_rc2_expand_*: the same pure function), and an
/// uninterpreted pair of block functions on (words, key words) standing for bcref::rc2::{encrypt,decrypt}_words.
pub mod ufk {
    pub const MAXC: usize = 8;
    pub static mut KB: [[u8; 128]; MAXC] = [[0; 128]; MAXC];
    pub static mut KL: [usize; MAXC] = [0; MAXC];
    pub static mut KT: [usize; MAXC] = [0; MAXC];
    pub static mut KR: [[u16; 64]; MAXC] = [[0; 64]; MAXC];
    pub static mut N: usize = 0;
    #[allow(static_mut_refs)]
    pub fn expand(key: &[u8], t1: usize) -> [u16; 64] {
        unsafe {
            assert!(key.len() <= 128);
            let mut buf = [0u8; 128];
            let mut i = 0;
            while i < 128 {
                if i < key.len() { buf[i] = key[i]; }
                i += 1;
            }
            let mut r: [u16; 64] = kani::any();
            let mut found = false;
            let mut c = 0;
            while c < N {
                let mut eq = KL[c] == key.len() && KT[c] == t1;
                let mut i = 0;
                while i < 128 {
                    eq &= KB[c][i] == buf[i];
                    i += 1;
                }
                if !found && eq { r = KR[c]; found = true; }
                c += 1;
            }
            assert!(N < MAXC);
            KB[N] = buf; KL[N] = key.len(); KT[N] = t1; KR[N] = r; N += 1;
            r
        }
    }
    pub const MAXB: usize = 8;
    pub static mut BD: [bool; MAXB] = [false; MAXB];
    pub static mut BX: [[u16; 4]; MAXB] = [[0; 4]; MAXB];
    pub static mut BK: [[u16; 64]; MAXB] = [[0; 64]; MAXB];
    pub static mut BR: [[u16; 4]; MAXB] = [[0; 4]; MAXB];
    pub static mut BN: usize = 0;
    #[allow(static_mut_refs)]
    fn block(dec: bool, x: [u16; 4], k: &[u16; 64]) -> [u16; 4] {
        unsafe {
            let mut r: [u16; 4] = kani::any();
            let mut found = false;
            let mut c = 0;
            while c < BN {
                let eq = BD[c] == dec && super::eqr(&BX[c], &x) && super::eq64(&BK[c], k);
                if !found && eq { r = BR[c]; found = true; }
                c += 1;
            }
            assert!(BN < MAXB);
            BD[BN] = dec; BX[BN] = x; BK[BN] = *k; BR[BN] = r; BN += 1;
            r
        }
    }
    pub fn enc_words(x: [u16; 4], k: &[u16; 64]) -> [u16; 4] { block(false, x, k) }
    pub fn dec_words(x: [u16; 4], k: &[u16; 64]) -> [u16; 4] { block(true, x, k) }
}

// new_with_eff_key_len / new_from_slice / new + encrypt_block / decrypt_block == RFC 2268 on bytes, for every
// key length 1..=128, every effective length 1..=1024 and every key and block (composition over the contracts)
// @ob name=c_rc2_bytes_api props=C09,C11,C20 fn=rc2::Rc2::new_with_eff_key_len,rc2::Rc2::new_from_slice,rc2::Rc2::encrypt_block,rc2::Rc2::decrypt_block
//     uses=c_rc2_expand_t1_e8,c_rc2_enc_state,c_rc2_dec_state timeout=600
#[kani::proof]
#[kani::stub(Rc2::expand_key, ufk::expand)]
#[kani::stub(bcref::rc2::expand_key, ufk::expand)]
#[kani::stub(<Rc2 as BlockCipherEncBackend>::encrypt_block, spec_enc_block)]
#[kani::stub(<Rc2 as BlockCipherDecBackend>::decrypt_block, spec_dec_block)]
#[kani::stub(bcref::rc2::encrypt_words, ufk::enc_words)]
#[kani::stub(bcref::rc2::decrypt_words, ufk::dec_words)]
#[kani::unwind(130)]
fn c_rc2_bytes_api() {
    let buf: [u8; 128] = kani::any();
    let n: usize = kani::any();
    let t1: usize = kani::any();
    kani::assume(1 <= n && n <= 128 && 1 <= t1 && t1 <= 1024);
    kani::cover!(n == 128 && t1 == 1024);
    kani::cover!(n == 1 && t1 == 1);
    let b: [u8; 8] = kani::any();
    let c = Rc2::new_with_eff_key_len(&buf[..n], t1);
    let mut blk = Array(b);
    cipher::BlockCipherEncrypt::encrypt_block(&c, &mut blk);
    assert!(blk.0 == bcref::rc2::encrypt(&buf[..n], t1, &b));
    let mut blk = Array(b);
    cipher::BlockCipherDecrypt::decrypt_block(&c, &mut blk);
    assert!(blk.0 == bcref::rc2::decrypt(&buf[..n], t1, &b));
}

// C11: Rc2 from a slice == Rc2 with effective length 8 x len, for every length 1..=128 and every key
// @ob name=k_rc2_slice_eff props=C11,C09 fn=rc2::Rc2::new_from_slice,rc2::Rc2::new_with_eff_key_len uses=c_rc2_expand_t1_e8 timeout=600
#[kani::proof]
#[kani::stub(Rc2::expand_key, ufk::expand)]
#[kani::unwind(130)]
fn k_rc2_slice_eff() {
    let buf: [u8; 128] = kani::any();
    let n: usize = kani::any();
    kani::assume(1 <= n && n <= 128);
    kani::cover!(n == 128);
    kani::cover!(n == 1);
    let d = Rc2::new_from_slice(&buf[..n]).unwrap();
    let e = Rc2::new_with_eff_key_len(&buf[..n], 8 * n);
    assert!(same(&d, &e));
}

// KeyInit::new (32-byte key) is new_from_slice on the same bytes; clone gives an equal state
// @ob name=k_rc2_new_same props=C11,C12 fn=rc2::Rc2::new,rc2::Rc2::new_from_slice,rc2::Rc2::clone uses=c_rc2_expand_t1_e8 timeout=300
#[kani::proof]
#[kani::stub(Rc2::expand_key, ufk::expand)]
#[kani::unwind(130)]
fn k_rc2_new_same() {
    let k: [u8; 32] = kani::any();
    let a = Rc2::new(&Array(k));
    let b = Rc2::new_from_slice(&k[..]).unwrap();
    let c = Rc2::new_with_eff_key_len(&k[..], 256);
    assert!(same(&a, &b) && same(&a, &c));
    assert!(same(&a, &a.clone()));
    let d = any_rc2();
    assert!(same(&d, &d.clone()));
}

// ---------------------------------------------------------------- C01 round trip
// helper inverse lemmas on the real helpers, every state: reverse_mix undoes mix (and j comes back), both orders
// @ob name=l_rc2_mix_inverse props=C01 kind=lemma fn=rc2::Rc2::mix,rc2::Rc2::reverse_mix timeout=300
#[kani::proof]
#[kani::unwind(6)]
fn l_rc2_mix_inverse() {
    let c = any_rc2();
    let r0: [u16; 4] = kani::any();
    let j0: usize = kani::any();
    kani::assume(j0 % 4 == 0 && j0 <= 60);
    let (mut r, mut j) = (r0, j0);
    c.mix(&mut r, &mut j);
    assert!(j == j0 + 4);
    j -= 1;
    c.reverse_mix(&mut r, &mut j);
    assert!(eqr(&r, &r0) && j == j0.wrapping_sub(1));
    let (mut r, mut j) = (r0, j0 + 3);
    c.reverse_mix(&mut r, &mut j);
    j = j.wrapping_add(1);
    assert!(j == j0);
    c.mix(&mut r, &mut j);
    assert!(eqr(&r, &r0));
}
// @ob name=l_rc2_mash_inverse props=C01 kind=lemma fn=rc2::Rc2::mash,rc2::Rc2::reverse_mash timeout=300
#[kani::proof]
#[kani::unwind(6)]
fn l_rc2_mash_inverse() {
    let c = any_rc2();
    let r0: [u16; 4] = kani::any();
    let mut r = r0;
    c.mash(&mut r);
    c.reverse_mash(&mut r);
    assert!(eqr(&r, &r0));
    c.reverse_mash(&mut r);
    c.mash(&mut r);
    assert!(eqr(&r, &r0));
}

/// Uninterpreted inverse pairs for ONE key array (every call asserts that it is made with the key array of the first
/// call, so a harness that mixes instances fails instead of being unsound): (mixing round at j) <-> (r-mixing round
/// at j + 3), mashing round <-> r-mashing round.  Row = (r_in, r_out); forward calls look up r_in, backward calls
/// look up r_out; fresh results are constrained to keep the relation a bijection.  Rows are kept in 17 slots by the
/// (concrete) kind of the call (j / 4, or 16 for mash): rows of different kinds are unrelated.
/// Licensed by c_rc2_mix .. c_rc2_reverse_mash (pure functions of (keys, r, j)) and l_rc2_mix_inverse / l_rc2_mash_inverse.
pub mod ufr {
    use super::{eq64, eqr, Rc2};
    pub const SLOTS: usize = 17;
    pub const PER: usize = 8;
    pub static mut KEYS: [u16; 64] = [0; 64];
    pub static mut KSET: bool = false;
    pub static mut X: [[[u16; 4]; PER]; SLOTS] = [[[0; 4]; PER]; SLOTS];
    pub static mut Y: [[[u16; 4]; PER]; SLOTS] = [[[0; 4]; PER]; SLOTS];
    pub static mut CNT: [usize; SLOTS] = [0; SLOTS];
    #[allow(static_mut_refs)]
    fn one_key(k: &[u16; 64]) {
        unsafe {
            if !KSET { KEYS = *k; KSET = true; }
            assert!(eq64(&KEYS, k));
        }
    }
    #[allow(static_mut_refs)]
    fn fwd(s: usize, k: &[u16; 64], x: [u16; 4]) -> [u16; 4] {
        unsafe {
            assert!(s < SLOTS);
            one_key(k);
            let mut y: [u16; 4] = kani::any();
            let mut found = false;
            let mut i = 0;
            while i < CNT[s] {
                if !found && eqr(&X[s][i], &x) { y = Y[s][i]; found = true; }
                i += 1;
            }
            if !found {
                let mut i = 0;
                while i < CNT[s] {
                    kani::assume(!eqr(&Y[s][i], &y));
                    i += 1;
                }
            }
            assert!(CNT[s] < PER);
            X[s][CNT[s]] = x; Y[s][CNT[s]] = y; CNT[s] += 1;
            y
        }
    }
    #[allow(static_mut_refs)]
    fn bwd(s: usize, k: &[u16; 64], y: [u16; 4]) -> [u16; 4] {
        unsafe {
            assert!(s < SLOTS);
            one_key(k);
            let mut x: [u16; 4] = kani::any();
            let mut found = false;
            let mut i = 0;
            while i < CNT[s] {
                if !found && eqr(&Y[s][i], &y) { x = X[s][i]; found = true; }
                i += 1;
            }
            if !found {
                let mut i = 0;
                while i < CNT[s] {
                    kani::assume(!eqr(&X[s][i], &x));
                    i += 1;
                }
            }
            assert!(CNT[s] < PER);
            X[s][CNT[s]] = x; Y[s][CNT[s]] = y; CNT[s] += 1;
            x
        }
    }
    // stand-ins for the reference's round functions (bcref::rc2::{mixing,mashing,r_mixing,r_mashing}_round)
    pub fn mixing_round(r: [u16; 4], k: &[u16; 64], j: usize) -> [u16; 4] { assert!(j % 4 == 0 && j <= 60); fwd(j / 4, k, r) }
    pub fn r_mixing_round(r: [u16; 4], k: &[u16; 64], j: usize) -> [u16; 4] { assert!(j % 4 == 3 && j <= 63); bwd(j / 4, k, r) }
    pub fn mashing_round(r: [u16; 4], k: &[u16; 64]) -> [u16; 4] { fwd(16, k, r) }
    pub fn r_mashing_round(r: [u16; 4], k: &[u16; 64]) -> [u16; 4] { bwd(16, k, r) }
    // stand-ins for the real helpers
    pub fn mix(c: &Rc2, r: &mut [u16; 4], j: &mut usize) { *r = mixing_round(*r, &c.keys, *j); *j += 4; }
    pub fn rmix(c: &Rc2, r: &mut [u16; 4], j: &mut usize) { *r = r_mixing_round(*r, &c.keys, *j); *j = j.wrapping_sub(4); }
    pub fn mash(c: &Rc2, r: &mut [u16; 4]) { *r = mashing_round(*r, &c.keys); }
    pub fn rmash(c: &Rc2, r: &mut [u16; 4]) { *r = r_mashing_round(*r, &c.keys); }
}

// C01 on the public block calls, both orders, every state
// @ob name=l_rc2_roundtrip props=C01 kind=lemma fn=rc2::Rc2::encrypt_block,rc2::Rc2::decrypt_block
//     uses=l_rc2_mix_inverse,l_rc2_mash_inverse timeout=600
#[kani::proof]
#[kani::stub(Rc2::mix, ufr::mix)]
#[kani::stub(Rc2::mash, ufr::mash)]
#[kani::stub(Rc2::reverse_mix, ufr::rmix)]
#[kani::stub(Rc2::reverse_mash, ufr::rmash)]
#[kani::unwind(66)]
fn l_rc2_roundtrip() {
    let c = any_rc2();
    let b: [u8; 8] = kani::any();
    let mut blk = Array(b);
    cipher::BlockCipherEncrypt::encrypt_block(&c, &mut blk);
    cipher::BlockCipherDecrypt::decrypt_block(&c, &mut blk);
    assert!(blk.0 == b);
    cipher::BlockCipherDecrypt::decrypt_block(&c, &mut blk);
    cipher::BlockCipherEncrypt::encrypt_block(&c, &mut blk);
    assert!(blk.0 == b);
}
// the same on the real code with nothing replaced
// (not run to completion in the contributing session: not registered)
// @candidate name=l_rc2_mono_roundtrip props=C01 kind=lemma tier=thorough fn=rc2::Rc2::encrypt_block,rc2::Rc2::decrypt_block timeout=3600
#[kani::proof]
#[kani::unwind(18)]
fn l_rc2_mono_roundtrip() {
    let c = any_rc2();
    let b: [u8; 8] = kani::any();
    let mut blk = Array(b);
    cipher::BlockCipherEncrypt::encrypt_block(&c, &mut blk);
    cipher::BlockCipherDecrypt::decrypt_block(&c, &mut blk);
    assert!(u64::from_le_bytes(blk.0) == u64::from_le_bytes(b));
}

// ---------------------------------------------------------------- C11 / C13 / C19 / C16
fn cheap_expand(key: &[u8], _t1: usize) -> [u16; 64] { [key.len() as u16; 64] }
// @ob name=k_rc2_len props=C11 kind=bounded bound="slice length <= 300" fn=rc2::Rc2::new_from_slice timeout=300
keylen!(#[kani::stub(Rc2::expand_key, cheap_expand)] #[kani::unwind(20)] k_rc2_len, Rc2, |n| 1 <= n && n <= 128, 1, 128);

// The length guard with the REAL key expansion behind it: no panic for any slice length <= 300 (C11 "without panicking")
// (measured 357 s)
// @ob name=k_rc2_real_len props=C11,C20 kind=bounded bound="slice length <= 300" tier=thorough fn=rc2::Rc2::new_from_slice,rc2::Rc2::expand_key timeout=3600
#[kani::proof]
#[kani::unwind(130)]
fn k_rc2_real_len() {
    let buf: [u8; 301] = kani::any();
    let n: usize = kani::any();
    kani::assume(n <= 300);
    let r = Rc2::new_from_slice(&buf[..n]);
    assert!(r.is_ok() == (1 <= n && n <= 128));
}

// @ob name=w_rc2_never_weak props=C13 fn=rc2::Rc2::weak_key_test,rc2::Rc2::new_checked uses=c_rc2_expand_t1_e8 timeout=300
never_weak!(#[kani::stub(Rc2::expand_key, ufk::expand)] #[kani::unwind(130)] w_rc2_never_weak, Rc2, 32, same);

// @ob name=n_rc2_names props=C19 fn=rc2::Rc2::fmt,rc2::Rc2::write_alg_name timeout=300
names!(n_rc2_names, Rc2, any_rc2(), "Rc2");

// @ob name=z_rc2_any props=C16 cfg=zeroize fn=rc2::Rc2::drop timeout=300
zero_on_drop!(z_rc2_any, Rc2, any_rc2());
// @ob name=z_rc2_clone props=C16,C12 cfg=zeroize fn=rc2::Rc2::drop,rc2::Rc2::clone timeout=300
zero_on_drop!(z_rc2_clone, Rc2, any_rc2().clone());

// ---------------------------------------------------------------- C04 / C15 multi-block plumbing
fn uf_block(_c: &Rc2, mut block: InOut<'_, '_, Block<Rc2>>) {
    let b = block.get_in().0;
    *block.get_out() = Array(uf::uf64(u64::from_le_bytes(b)).to_le_bytes());
}
// @ob name=m_rc2_enc_blocks_0 props=C04,C15 kind=bounded bound="n = 0 blocks" fn=rc2::Rc2::encrypt_with_backend uses=c_rc2_enc_state timeout=300
multi_block!(#[kani::stub(<Rc2 as BlockCipherEncBackend>::encrypt_block, uf_block)] #[kani::unwind(66)]
    m_rc2_enc_blocks_0, 0, any_rc2(), snap, eq64, BlockCipherEncrypt, encrypt_block, encrypt_blocks, encrypt_blocks_b2b);
// @ob name=m_rc2_enc_blocks_1 props=C04,C15 kind=bounded bound="n = 1 block" fn=rc2::Rc2::encrypt_with_backend uses=c_rc2_enc_state timeout=300
multi_block!(#[kani::stub(<Rc2 as BlockCipherEncBackend>::encrypt_block, uf_block)] #[kani::unwind(66)]
    m_rc2_enc_blocks_1, 1, any_rc2(), snap, eq64, BlockCipherEncrypt, encrypt_block, encrypt_blocks, encrypt_blocks_b2b);
// @ob name=m_rc2_enc_blocks_3 props=C04,C15 kind=bounded bound="n = 3 blocks" fn=rc2::Rc2::encrypt_with_backend uses=c_rc2_enc_state timeout=300
multi_block!(#[kani::stub(<Rc2 as BlockCipherEncBackend>::encrypt_block, uf_block)] #[kani::unwind(66)]
    m_rc2_enc_blocks_3, 3, any_rc2(), snap, eq64, BlockCipherEncrypt, encrypt_block, encrypt_blocks, encrypt_blocks_b2b);
// @ob name=m_rc2_dec_blocks_0 props=C04,C15 kind=bounded bound="n = 0 blocks" fn=rc2::Rc2::decrypt_with_backend uses=c_rc2_dec_state timeout=300
multi_block!(#[kani::stub(<Rc2 as BlockCipherDecBackend>::decrypt_block, uf_block)] #[kani::unwind(66)]
    m_rc2_dec_blocks_0, 0, any_rc2(), snap, eq64, BlockCipherDecrypt, decrypt_block, decrypt_blocks, decrypt_blocks_b2b);
// @ob name=m_rc2_dec_blocks_1 props=C04,C15 kind=bounded bound="n = 1 block" fn=rc2::Rc2::decrypt_with_backend uses=c_rc2_dec_state timeout=300
multi_block!(#[kani::stub(<Rc2 as BlockCipherDecBackend>::decrypt_block, uf_block)] #[kani::unwind(66)]
    m_rc2_dec_blocks_1, 1, any_rc2(), snap, eq64, BlockCipherDecrypt, decrypt_block, decrypt_blocks, decrypt_blocks_b2b);
// @ob name=m_rc2_dec_blocks_3 props=C04,C15 kind=bounded bound="n = 3 blocks" fn=rc2::Rc2::decrypt_with_backend uses=c_rc2_dec_state timeout=300
multi_block!(#[kani::stub(<Rc2 as BlockCipherDecBackend>::decrypt_block, uf_block)] #[kani::unwind(66)]
    m_rc2_dec_blocks_3, 3, any_rc2(), snap, eq64, BlockCipherDecrypt, decrypt_block, decrypt_blocks, decrypt_blocks_b2b);



