//! twofish: Twofish with 128/192/256-bit keys against the Twofish paper (bcref::twofish), C08.
use crate::generic::*;
use crate::util::*;
use bcref::twofish as r;

desc!(DTwofish: twofish::Twofish, "twofish", "Twofish", [16, 24, 32], "C08", [clone, debug, alg], names ["Twofish"], alg ["twofish"],
    |k, b, dec| {
        let key: [u8; 32] = padded(k);
        Some(if dec { r::decrypt(&key, k.len() / 8, &arr(b)) } else { r::encrypt(&key, k.len() / 8, &arr(b)) }.to_vec())
    });

pub fn run() {
    visit::<DTwofish>();
}
