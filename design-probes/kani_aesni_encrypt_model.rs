use super::*;
include!("/tmp/exp/k2/sbox.inc");
fn to_b(x: __m128i) -> [u8; 16] { unsafe { core::mem::transmute(x) } }
fn from_b(x: [u8; 16]) -> __m128i { unsafe { core::mem::transmute(x) } }
fn xtime(x: u8) -> u8 { (x << 1) ^ (if x & 0x80 != 0 { 0x1b } else { 0 }) }
fn sb_sr(s: &[u8; 16]) -> [u8; 16] { let mut t = [0u8; 16]; let mut c = 0; while c < 4 { let mut r = 0; while r < 4 { t[4*c + r] = SBOX[s[4*((c + r) % 4) + r] as usize]; r += 1; } c += 1; } t }
fn mc(t: &[u8; 16]) -> [u8; 16] {
    let mut o = [0u8; 16]; let mut c = 0;
    while c < 4 {
        let a = [t[4*c], t[4*c+1], t[4*c+2], t[4*c+3]];
        o[4*c]   = xtime(a[0]) ^ (xtime(a[1]) ^ a[1]) ^ a[2] ^ a[3];
        o[4*c+1] = a[0] ^ xtime(a[1]) ^ (xtime(a[2]) ^ a[2]) ^ a[3];
        o[4*c+2] = a[0] ^ a[1] ^ xtime(a[2]) ^ (xtime(a[3]) ^ a[3]);
        o[4*c+3] = (xtime(a[0]) ^ a[0]) ^ a[1] ^ a[2] ^ xtime(a[3]);
        c += 1;
    }
    o
}
fn xor16(a: &[u8;16], b: &[u8;16]) -> [u8;16] { let mut o = [0u8;16]; let mut i = 0; while i < 16 { o[i] = a[i]^b[i]; i += 1; } o }
// ---- intrinsic models (Intel SDM) ----
unsafe fn m_aesenc(a: __m128i, k: __m128i) -> __m128i { from_b(xor16(&mc(&sb_sr(&to_b(a))), &to_b(k))) }
unsafe fn m_aesenclast(a: __m128i, k: __m128i) -> __m128i { from_b(xor16(&sb_sr(&to_b(a)), &to_b(k))) }
// ---- reference cipher with given round keys (FIPS-197 5.1), written independently of the models' composition
fn ref_cipher(rk: &[[u8; 16]; 11], blk: &[u8; 16]) -> [u8; 16] {
    let mut s = xor16(blk, &rk[0]);
    let mut r = 1;
    while r < 10 { s = xor16(&mc(&sb_sr(&s)), &rk[r]); r += 1; }
    xor16(&sb_sr(&s), &rk[10])
}
#[kani::proof]
#[kani::stub(_mm_aesenc_si128, m_aesenc)]
#[kani::stub(_mm_aesenclast_si128, m_aesenclast)]
#[kani::unwind(17)]
fn ni_encrypt_128() {
    let rk: [[u8; 16]; 11] = kani::any();
    let mut keys: [__m128i; 11] = unsafe { core::mem::zeroed() };
    let mut i = 0; while i < 11 { keys[i] = from_b(rk[i]); i += 1; }
    let blk: [u8; 16] = kani::any();
    let inb: Block = blk.into();
    let mut outb = Block::default();
    unsafe { encrypt::<11>(&keys, InOut::from((&inb, &mut outb))); }
    assert!(outb.0 == ref_cipher(&rk, &blk));
}
