//! (reference for speck: to be written)
