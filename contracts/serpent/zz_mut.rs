// TEMPORARY mutation checks (sanity of harnesses): every obligation here must be REFUTED.
// @module file=serpent/src/lib.rs
use super::*;
use crate::__vp_cipher::*;
use crate::bitslice::__vp_bitslice::eq4;
use bcref::serpent as r;
use cipher::Array;

// padding claimed to be 0x80 instead of 0x01
// @ob name=zz_pad_80 props=C08 fn=x timeout=600
#[kani::proof]
#[kani::unwind(34)]
fn zz_pad_80() {
    let buf: [u8; 32] = kani::any();
    let n: usize = kani::any();
    kani::assume(16 <= n && n <= 32);
    let got = expand_key(&buf[..n], n * 8);
    let mut want = r::pad_key(&buf, n);
    if n < 32 { want[n] = 0x80; }
    assert!(eq_bytes32(&got, &want));
}
// S-box circuit e3 claimed to be table S2
// @ob name=zz_sbox_wrong_table props=C08 fn=x timeout=600
#[kani::proof]
#[kani::unwind(33)]
fn zz_sbox_wrong_table() {
    let w: [u32; 4] = kani::any();
    assert!(eq4(&crate::bitslice::apply_s(3, w), &r::table_bitslice(&r::S[2], w)));
}
// claim that 15-byte keys are accepted
// @ob name=zz_len_15 props=C11 fn=x timeout=600
#[kani::proof]
#[kani::unwind(141)]
fn zz_len_15() {
    let buf: [u8; 301] = kani::any();
    let n: usize = kani::any();
    kani::assume(n <= 300);
    let r = <Serpent as KeyInit>::new_from_slice(&buf[..n]);
    assert!(r.is_ok() == (15 <= n && n <= 32));
}
