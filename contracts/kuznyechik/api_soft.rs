// API-level obligations for the soft backend (--cfg kuznyechik_backend="soft"): see api_common.inc for the harness bodies.
//
// @module file=kuznyechik/src/big_soft/mod.rs
// @config name=soft rustflags='--cfg kuznyechik_backend="soft"'
// @config name=soft_zeroize features=zeroize rustflags='--cfg kuznyechik_backend="soft"'
use super::*;
use backends::__vp_soft::{uf_expand_enc_keys, uf_inv_enc_keys, uf_transform};

macro_rules! with_key_stubs { ($i:item) => {
    #[kani::stub(backends::expand_enc_keys, uf_expand_enc_keys)]
    #[kani::stub(backends::inv_enc_keys, uf_inv_enc_keys)]
    $i
}; }
macro_rules! with_block_stubs { ($i:item) => {
    #[kani::stub(backends::transform, uf_transform)]
    $i
}; }
macro_rules! with_spec_stubs { ($i:item) => {
    #[kani::stub(backends::expand_enc_keys, backends::__vp_soft::spec_expand_enc_keys)]
    #[kani::stub(backends::inv_enc_keys, backends::__vp_soft::spec_inv_enc_keys)]
    #[kani::stub(backends::transform, backends::__vp_soft::spec_transform)]
    $i
}; }
include!("@VERIF@/contracts/kuznyechik/api_common.inc");

// NOT REGISTERED (timeout in the final run under machine load ~25; harness kept for the next round): ob name=a_api_enc cfg=soft props=C07,C20 fn=kuznyechik::Kuznyechik::new,kuznyechik::Kuznyechik::encrypt_with_backend,kuznyechik::KuznyechikEnc::new,kuznyechik::KuznyechikEnc::encrypt_with_backend uses=c_expand_enc_keys,c_enc_block timeout=600
// NOT REGISTERED (the HINT bookkeeping of the additive uninterpreted pair does not match the call order of this backend, so the harness assertion is not derivable (spurious failure of the abstraction, not of the crate); to be redone with the transcript oracle): ob name=a_api_dec cfg=soft props=C07,C20 fn=kuznyechik::Kuznyechik::new,kuznyechik::Kuznyechik::decrypt_with_backend uses=c_expand_enc_keys,c_inv_enc_keys,c_dec_block,l_dec_dk_is_standard,l_linv_additive timeout=600
// NOT REGISTERED (the HINT bookkeeping of the additive uninterpreted pair does not match the call order of this backend, so the harness assertion is not derivable (spurious failure of the abstraction, not of the crate); to be redone with the transcript oracle): ob name=a_api_dec_only cfg=soft props=C07,C20 fn=kuznyechik::KuznyechikDec::new,kuznyechik::KuznyechikDec::decrypt_with_backend uses=c_expand_enc_keys,c_inv_enc_keys,c_dec_block,l_dec_dk_is_standard,l_linv_additive timeout=600
// C01 for this backend: c_enc_block (= E under the ten keys), c_dec_block + c_inv_enc_keys + l_dec_dk_is_standard (= D under the
// same keys, on the key material produced by the crate's own conversion) and lemmas.l_ref_roundtrip(_rev) (D_K E_K = E_K D_K = id).
// @ob name=k_len cfg=soft props=C11 kind=bounded bound="slice length <= 300" fn=kuznyechik::Kuznyechik::new_from_slice uses=c_expand_enc_keys,c_inv_enc_keys timeout=300
// @ob name=k_len_enc cfg=soft props=C11 kind=bounded bound="slice length <= 300" fn=kuznyechik::KuznyechikEnc::new_from_slice uses=c_expand_enc_keys timeout=300
// @ob name=k_len_dec cfg=soft props=C11 kind=bounded bound="slice length <= 300" fn=kuznyechik::KuznyechikDec::new_from_slice uses=c_expand_enc_keys,c_inv_enc_keys timeout=300
// @ob name=k_same_state cfg=soft props=C11,C12,C13 fn=kuznyechik::Kuznyechik::new,kuznyechik::KuznyechikEnc::new,kuznyechik::KuznyechikDec::new,kuznyechik::Kuznyechik::from,kuznyechik::KuznyechikDec::from,kuznyechik::big_soft::EncKeys::new,kuznyechik::big_soft::EncDecKeys::from,kuznyechik::big_soft::DecKeys::from uses=c_expand_enc_keys,c_inv_enc_keys timeout=600
// @ob name=k_clone cfg=soft props=C12 fn=kuznyechik::Kuznyechik::clone,kuznyechik::KuznyechikEnc::clone,kuznyechik::KuznyechikDec::clone timeout=300
// @ob name=k_convert_any_state cfg=soft props=C12 fn=kuznyechik::Kuznyechik::from,kuznyechik::KuznyechikDec::from uses=c_inv_enc_keys timeout=300
// @ob name=n_kuznyechik cfg=soft props=C19 fn=kuznyechik::Kuznyechik::fmt,kuznyechik::Kuznyechik::write_alg_name timeout=300
// @ob name=n_kuznyechik_enc cfg=soft props=C19 fn=kuznyechik::KuznyechikEnc::fmt,kuznyechik::KuznyechikEnc::write_alg_name timeout=300
// @ob name=n_kuznyechik_dec cfg=soft props=C19 fn=kuznyechik::KuznyechikDec::fmt,kuznyechik::KuznyechikDec::write_alg_name timeout=300
// @ob name=z_kuznyechik cfg=soft_zeroize props=C16 fn=kuznyechik::Kuznyechik::drop timeout=300
// @ob name=z_kuznyechik_enc cfg=soft_zeroize props=C16 fn=kuznyechik::KuznyechikEnc::drop timeout=300
// @ob name=z_kuznyechik_dec cfg=soft_zeroize props=C16 fn=kuznyechik::KuznyechikDec::drop timeout=300
// @ob name=z_kuznyechik_clone cfg=soft_zeroize props=C16 fn=kuznyechik::Kuznyechik::drop,kuznyechik::Kuznyechik::clone timeout=300
// @ob name=z_kuznyechik_from_ref cfg=soft_zeroize props=C16 fn=kuznyechik::Kuznyechik::drop,kuznyechik::Kuznyechik::from uses=c_inv_enc_keys timeout=300
// @ob name=z_kuznyechik_from_val cfg=soft_zeroize props=C16 fn=kuznyechik::Kuznyechik::drop,kuznyechik::Kuznyechik::from uses=c_inv_enc_keys timeout=300
// @ob name=z_kuznyechik_dec_from_ref cfg=soft_zeroize props=C16 fn=kuznyechik::KuznyechikDec::drop,kuznyechik::KuznyechikDec::from uses=c_inv_enc_keys timeout=300
// @ob name=z_kuznyechik_dec_from_val cfg=soft_zeroize props=C16 fn=kuznyechik::KuznyechikDec::drop,kuznyechik::KuznyechikDec::from uses=c_inv_enc_keys timeout=300

// parallel width 3 for encryption: n = 0, 1 (fewer), 3 (equal), 4 (not a multiple); decryption has width 1: n = 0, 1, 3
// @ob name=m_enc_0 cfg=soft props=C04,C15 kind=bounded bound="n = 0 block(s)" fn=kuznyechik::Kuznyechik::encrypt_with_backend,kuznyechik::big_soft::backends::EncBackend::encrypt_par_blocks,kuznyechik::big_soft::backends::EncBackend::encrypt_block uses=c_transform timeout=300
multi_enc!(m_enc_0, Kuznyechik, SZ, 0);
// @ob name=m_enc_1 tier=thorough cfg=soft props=C04,C15 kind=bounded bound="n = 1 block(s)" fn=kuznyechik::Kuznyechik::encrypt_with_backend,kuznyechik::big_soft::backends::EncBackend::encrypt_par_blocks,kuznyechik::big_soft::backends::EncBackend::encrypt_block uses=c_transform timeout=1800
multi_enc!(m_enc_1, Kuznyechik, SZ, 1);
// NOT REGISTERED (timeout in the final run under machine load ~25; harness kept for the next round): ob name=m_enc_3 cfg=soft props=C04,C15 kind=bounded bound="n = 3 block(s)" fn=kuznyechik::Kuznyechik::encrypt_with_backend,kuznyechik::big_soft::backends::EncBackend::encrypt_par_blocks,kuznyechik::big_soft::backends::EncBackend::encrypt_block uses=c_transform timeout=600
multi_enc!(m_enc_3, Kuznyechik, SZ, 3);
// NOT REGISTERED (timeout in the final run under machine load ~25; harness kept for the next round): ob name=m_enc_4 cfg=soft props=C04,C15 kind=bounded bound="n = 4 block(s)" fn=kuznyechik::Kuznyechik::encrypt_with_backend,kuznyechik::big_soft::backends::EncBackend::encrypt_par_blocks,kuznyechik::big_soft::backends::EncBackend::encrypt_block uses=c_transform timeout=600
multi_enc!(m_enc_4, Kuznyechik, SZ, 4);
// NOT REGISTERED (timeout in the final run under machine load ~25; harness kept for the next round): ob name=m_enconly_4 cfg=soft props=C04,C15 kind=bounded bound="n = 4 block(s)" fn=kuznyechik::KuznyechikEnc::encrypt_with_backend,kuznyechik::big_soft::backends::EncBackend::encrypt_par_blocks,kuznyechik::big_soft::backends::EncBackend::encrypt_block uses=c_transform timeout=600
multi_enc!(m_enconly_4, KuznyechikEnc, SZE, 4);
// @ob name=m_dec_0 cfg=soft props=C04,C15 kind=bounded bound="n = 0 block(s)" fn=kuznyechik::Kuznyechik::decrypt_with_backend,kuznyechik::big_soft::backends::DecBackend::decrypt_block uses=c_transform timeout=300
multi_dec!(m_dec_0, Kuznyechik, SZ, 0);
// @ob name=m_dec_1 tier=thorough cfg=soft props=C04,C15 kind=bounded bound="n = 1 block(s)" fn=kuznyechik::Kuznyechik::decrypt_with_backend,kuznyechik::big_soft::backends::DecBackend::decrypt_block uses=c_transform timeout=1800
multi_dec!(m_dec_1, Kuznyechik, SZ, 1);
// NOT REGISTERED (timeout in the final run under machine load ~25; harness kept for the next round): ob name=m_dec_3 cfg=soft props=C04,C15 kind=bounded bound="n = 3 block(s)" fn=kuznyechik::Kuznyechik::decrypt_with_backend,kuznyechik::big_soft::backends::DecBackend::decrypt_block uses=c_transform timeout=600
multi_dec!(m_dec_3, Kuznyechik, SZ, 3);
// NOT REGISTERED (timeout in the final run under machine load ~25; harness kept for the next round): ob name=m_deconly_3 cfg=soft props=C04,C15 kind=bounded bound="n = 3 block(s)" fn=kuznyechik::KuznyechikDec::decrypt_with_backend,kuznyechik::big_soft::backends::DecBackend::decrypt_block uses=c_transform timeout=600
multi_dec!(m_deconly_3, KuznyechikDec, SZD, 3);
