//! Threefish-256/512/1024 after Ferguson, Lucks, Schneier, Whiting, Bellare, Kohno, Callas, Walker,
//! "The Skein Hash Function Family", version 1.3 (1 Oct 2010): section 3.3 (Threefish), 3.3.1 (MIX functions,
//! Table 3: permutation pi, Table 4: rotation constants R_{d,j}), 3.3.2 (key schedule, C240), 3.1 (byte <-> word
//! conversion: little-endian).  Decryption is the inverse, written out here step by step.
//!
//! NW = N_w (4, 8, 16) is a const generic; NS = N_r/4 + 1 is the number of subkeys (19, 19, 21).
//! Notation of the paper: v_{d,i} state before round d, e_{d,i} after the (conditional) subkey addition,
//! f_{d,i} after the MIX layer, v_{d+1,i} = f_{d,pi(i)}.

/// 3.3.2: "C240 = 0x1BD11BDAA9FC1A22"
pub const C240: u64 = 0x1BD11BDAA9FC1A22;

/// Table 3: values of the word permutation pi(i)
pub const PI4: [usize; 4] = [0, 3, 2, 1];
pub const PI8: [usize; 8] = [2, 1, 4, 7, 6, 5, 0, 3];
pub const PI16: [usize; 16] = [0, 9, 2, 13, 6, 11, 4, 15, 10, 7, 12, 3, 14, 5, 8, 1];

/// Table 4: rotation constants R_{d mod 8, j}
pub const R4: [[u32; 2]; 8] = [[14, 16], [52, 57], [23, 40], [5, 37], [25, 33], [46, 12], [58, 22], [32, 32]];
pub const R8: [[u32; 4]; 8] = [
    [46, 36, 19, 37],
    [33, 27, 14, 42],
    [17, 49, 36, 39],
    [44, 9, 54, 56],
    [39, 30, 34, 24],
    [13, 50, 10, 17],
    [25, 29, 39, 43],
    [8, 35, 56, 22],
];
pub const R16: [[u32; 8]; 8] = [
    [24, 13, 8, 47, 8, 17, 22, 37],
    [38, 19, 10, 55, 49, 18, 23, 52],
    [33, 4, 51, 13, 34, 41, 59, 17],
    [5, 20, 48, 41, 47, 28, 16, 25],
    [41, 9, 37, 31, 12, 47, 44, 30],
    [16, 34, 56, 51, 4, 53, 42, 41],
    [31, 44, 47, 46, 19, 42, 44, 25],
    [9, 48, 35, 52, 23, 31, 37, 20],
];

/// N_r: "72 rounds for Threefish-256 and Threefish-512, 80 rounds for Threefish-1024"
pub const fn rounds(nw: usize) -> usize { if nw == 16 { 80 } else { 72 } }
pub const fn pi(nw: usize, i: usize) -> usize {
    if nw == 4 { PI4[i] } else if nw == 8 { PI8[i] } else { PI16[i] }
}
pub const fn rot(nw: usize, d: usize, j: usize) -> u32 {
    if nw == 4 { R4[d % 8][j] } else if nw == 8 { R8[d % 8][j] } else { R16[d % 8][j] }
}

/// MIX_{d,j}: y0 = x0 + x1 mod 2^64, y1 = (x1 <<< R) xor y0
pub const fn mix(r: u32, x0: u64, x1: u64) -> (u64, u64) {
    let y0 = x0.wrapping_add(x1);
    (y0, x1.rotate_left(r) ^ y0)
}
/// inverse of MIX: x1 = (y1 xor y0) >>> R, x0 = y0 - x1
pub const fn inv_mix(r: u32, y0: u64, y1: u64) -> (u64, u64) {
    let x1 = (y1 ^ y0).rotate_right(r);
    (y0.wrapping_sub(x1), x1)
}

/// 3.3.2: subkeys k_{s,i}, 0 <= s <= N_r/4, from the key words k_0..k_{Nw-1} and tweak words t_0, t_1
pub fn key_schedule<const NW: usize, const NS: usize>(key: &[u64; NW], tweak: &[u64; 2]) -> [[u64; NW]; NS] {
    assert!((NW == 4 || NW == 8 || NW == 16) && NS == rounds(NW) / 4 + 1);
    // k_{Nw} = C240 xor k_0 xor ... xor k_{Nw-1};  t_2 = t_0 xor t_1
    let mut k = [0u64; 17];
    let mut kn = C240;
    let mut i = 0;
    while i < NW {
        k[i] = key[i];
        kn ^= key[i];
        i += 1;
    }
    k[NW] = kn;
    let t = [tweak[0], tweak[1], tweak[0] ^ tweak[1]];
    let mut sk = [[0u64; NW]; NS];
    let mut s = 0;
    while s < NS {
        let mut i = 0;
        while i < NW {
            let base = k[(s + i) % (NW + 1)];
            sk[s][i] = if i + 3 < NW {
                base // i = 0 .. Nw-4
            } else if i == NW - 3 {
                base.wrapping_add(t[s % 3])
            } else if i == NW - 2 {
                base.wrapping_add(t[(s + 1) % 3])
            } else {
                base.wrapping_add(s as u64)
            };
            i += 1;
        }
        s += 1;
    }
    sk
}

/// one round d: subkey addition when d mod 4 = 0, MIX layer, permutation
pub fn round<const NW: usize, const NS: usize>(sk: &[[u64; NW]; NS], d: usize, v: &[u64; NW]) -> [u64; NW] {
    let mut e = [0u64; NW];
    let mut i = 0;
    while i < NW {
        e[i] = if d % 4 == 0 { v[i].wrapping_add(sk[d / 4][i]) } else { v[i] };
        i += 1;
    }
    let mut f = [0u64; NW];
    let mut j = 0;
    while j < NW / 2 {
        let (y0, y1) = mix(rot(NW, d, j), e[2 * j], e[2 * j + 1]);
        f[2 * j] = y0;
        f[2 * j + 1] = y1;
        j += 1;
    }
    let mut out = [0u64; NW];
    let mut i = 0;
    while i < NW {
        out[i] = f[pi(NW, i)];
        i += 1;
    }
    out
}
pub fn inv_round<const NW: usize, const NS: usize>(sk: &[[u64; NW]; NS], d: usize, v: &[u64; NW]) -> [u64; NW] {
    // undo the permutation: f_{pi(i)} = v_{d+1,i}
    let mut f = [0u64; NW];
    let mut i = 0;
    while i < NW {
        f[pi(NW, i)] = v[i];
        i += 1;
    }
    let mut e = [0u64; NW];
    let mut j = 0;
    while j < NW / 2 {
        let (x0, x1) = inv_mix(rot(NW, d, j), f[2 * j], f[2 * j + 1]);
        e[2 * j] = x0;
        e[2 * j + 1] = x1;
        j += 1;
    }
    let mut out = [0u64; NW];
    let mut i = 0;
    while i < NW {
        out[i] = if d % 4 == 0 { e[i].wrapping_sub(sk[d / 4][i]) } else { e[i] };
        i += 1;
    }
    out
}

/// ciphertext words c_i = v_{Nr,i} + k_{Nr/4,i}
pub fn encrypt_with<const NW: usize, const NS: usize>(sk: &[[u64; NW]; NS], p: &[u64; NW]) -> [u64; NW] {
    let mut v = *p;
    let mut d = 0;
    while d < 4 * (NS - 1) {
        v = round::<NW, NS>(sk, d, &v);
        d += 1;
    }
    let mut i = 0;
    while i < NW {
        v[i] = v[i].wrapping_add(sk[NS - 1][i]);
        i += 1;
    }
    v
}
pub fn decrypt_with<const NW: usize, const NS: usize>(sk: &[[u64; NW]; NS], c: &[u64; NW]) -> [u64; NW] {
    let mut v = *c;
    let mut i = 0;
    while i < NW {
        v[i] = v[i].wrapping_sub(sk[NS - 1][i]);
        i += 1;
    }
    let mut d = 4 * (NS - 1);
    while d > 0 {
        d -= 1;
        v = inv_round::<NW, NS>(sk, d, &v);
    }
    v
}

pub fn encrypt_words<const NW: usize, const NS: usize>(key: &[u64; NW], tweak: &[u64; 2], p: &[u64; NW]) -> [u64; NW] {
    encrypt_with::<NW, NS>(&key_schedule::<NW, NS>(key, tweak), p)
}
pub fn decrypt_words<const NW: usize, const NS: usize>(key: &[u64; NW], tweak: &[u64; 2], c: &[u64; NW]) -> [u64; NW] {
    decrypt_with::<NW, NS>(&key_schedule::<NW, NS>(key, tweak), c)
}

/// 3.1 BytesToWords: 8 bytes per word, least significant byte first
pub fn bytes_to_words<const NW: usize>(b: &[u8]) -> [u64; NW] {
    let mut w = [0u64; NW];
    let mut i = 0;
    while i < NW {
        let mut x = 0u64;
        let mut j = 8;
        while j > 0 {
            j -= 1;
            x = (x << 8) | b[8 * i + j] as u64;
        }
        w[i] = x;
        i += 1;
    }
    w
}
pub fn words_to_bytes<const NW: usize>(w: &[u64; NW], b: &mut [u8]) {
    let mut i = 0;
    while i < NW {
        let mut j = 0;
        while j < 8 {
            b[8 * i + j] = (w[i] >> (8 * j)) as u8;
            j += 1;
        }
        i += 1;
    }
}
/// byte interface: key 8 NW bytes, tweak 16 bytes, block 8 NW bytes
pub fn encrypt<const NW: usize, const NS: usize>(key: &[u8], tweak: &[u8; 16], block: &mut [u8]) {
    let c = encrypt_words::<NW, NS>(&bytes_to_words::<NW>(key), &bytes_to_words::<2>(tweak), &bytes_to_words::<NW>(block));
    words_to_bytes::<NW>(&c, block);
}
pub fn decrypt<const NW: usize, const NS: usize>(key: &[u8], tweak: &[u8; 16], block: &mut [u8]) {
    let p = decrypt_words::<NW, NS>(&bytes_to_words::<NW>(key), &bytes_to_words::<2>(tweak), &bytes_to_words::<NW>(block));
    words_to_bytes::<NW>(&p, block);
}

#[cfg(test)]
mod tests {
    extern crate std;
    use super::*;
    use std::vec::Vec;

    fn hex(s: &str) -> Vec<u8> {
        let d: Vec<u8> = s.bytes().filter(|c| !c.is_ascii_whitespace()).map(|c| (c as char).to_digit(16).unwrap() as u8).collect();
        d.chunks(2).map(|p| p[0] << 4 | p[1]).collect()
    }

    /// Skein as defined in sections 3.4-3.5 (UBI, configuration block, output) on top of this Threefish, only so
    /// that the paper's own vectors (Appendix C, which are Skein hashes) anchor the block cipher incl. tweaks.
    fn ubi<const NW: usize, const NS: usize>(g: &[u64; NW], msg: &[u8], ty: u64) -> [u64; NW] {
        let nb = 8 * NW;
        let nblocks = if msg.is_empty() { 1 } else { (msg.len() + nb - 1) / nb };
        let mut h = *g;
        for i in 0..nblocks {
            let mut blk = std::vec![0u8; nb];
            let lo = i * nb;
            let hi = core::cmp::min(msg.len(), lo + nb);
            blk[..hi - lo].copy_from_slice(&msg[lo..hi]);
            let mut t1 = ty << 56;
            if i == 0 { t1 |= 1 << 62; }
            if i == nblocks - 1 { t1 |= 1 << 63; }
            let t = [hi as u64, t1];
            let m = bytes_to_words::<NW>(&blk);
            let c = encrypt_words::<NW, NS>(&h, &t, &m);
            for k in 0..NW { h[k] = c[k] ^ m[k]; }
        }
        h
    }
    fn skein<const NW: usize, const NS: usize>(msg: &[u8]) -> Vec<u8> {
        let nb = 8 * NW;
        let mut cfg = [0u8; 32];
        cfg[..4].copy_from_slice(b"SHA3");
        cfg[4] = 1; // version
        cfg[8..16].copy_from_slice(&((8 * nb) as u64).to_le_bytes()); // output length in bits
        let g0 = ubi::<NW, NS>(&[0u64; NW], &cfg, 4);
        let g1 = ubi::<NW, NS>(&g0, msg, 48);
        let out = ubi::<NW, NS>(&g1, &0u64.to_le_bytes(), 63);
        let mut b = std::vec![0u8; nb];
        words_to_bytes::<NW>(&out, &mut b);
        b
    }

    /// Skein 1.3, Appendix C.1-C.3: Skein-256-256, Skein-512-512, Skein-1024-1024 of the one-byte message FF
    #[test]
    fn skein_appendix_c() {
        assert_eq!(skein::<4, 19>(&[0xff]), hex("0B98DCD198EA0E50A7A244C444E25C23DA30C10FC9A1F270A6637F1F34E67ED2"));
        assert_eq!(
            skein::<8, 19>(&[0xff]),
            hex("71B7BCE6FE6452227B9CED6014249E5BF9A9754C3AD618CCC4E0AAE16B316CC8CA698D864307ED3E80B6EF1570812AC5272DC409B5A012DF2A579102F340617A")
        );
        assert_eq!(
            skein::<16, 21>(&[0xff]),
            hex("E62C05802EA0152407CDD8787FDA9E35703DE862A4FBC119CFF8590AFE79250BCCC8B3FAF1BD2422AB5C0D263FB2F8AFB3F796F048000381531B6F00D85161BC\
                 0FFF4BEF2486B1EBCD3773FABF50AD4AD5639AF9040E3F29C6C931301BF79832E9DA09857E831E82EF8B4691C235656515D437D2BDA33BCEC001C67FFDE15BA8")
        );
    }

    /// Threefish known answers of the Skein reference implementation (as collected in Crypto++ TestVectors/threefish.txt,
    /// the file /repo/threefish/tests quotes): zero key / zero tweak / zero block, and the counting-pattern vectors
    #[test]
    fn threefish_kat() {
        let mut b = [0u8; 32];
        encrypt::<4, 19>(&[0u8; 32], &[0u8; 16], &mut b);
        assert_eq!(b[..], hex("84DA2A1F8BEAEE947066AE3E3103F1AD536DB1F4A1192495116B9F3CE6133FD8")[..]);
        decrypt::<4, 19>(&[0u8; 32], &[0u8; 16], &mut b);
        assert_eq!(b, [0u8; 32]);

        let tweak: [u8; 16] = hex("000102030405060708090A0B0C0D0E0F").try_into().unwrap();
        let key = hex("101112131415161718191A1B1C1D1E1F202122232425262728292A2B2C2D2E2F");
        let mut b = hex("FFFEFDFCFBFAF9F8F7F6F5F4F3F2F1F0EFEEEDECEBEAE9E8E7E6E5E4E3E2E1E0");
        let pt = b.clone();
        encrypt::<4, 19>(&key, &tweak, &mut b);
        assert_eq!(b, hex("E0D091FF0EEA8FDFC98192E62ED80AD59D865D08588DF476657056B5955E97DF"));
        decrypt::<4, 19>(&key, &tweak, &mut b);
        assert_eq!(b, pt);

        let mut b = [0u8; 64];
        encrypt::<8, 19>(&[0u8; 64], &[0u8; 16], &mut b);
        assert_eq!(
            b[..],
            hex("B1A2BBC6EF6025BC40EB3822161F36E375D1BB0AEE3186FBD19E47C5D479947B7BC2F8586E35F0CFF7E7F03084B0B7B1F1AB3961A580A3E97EB41EA14A6D7BBE")[..]
        );
        let key: Vec<u8> = (0x10..0x50).collect();
        let mut b: Vec<u8> = (0..64).map(|i| 0xff - i as u8).collect();
        let pt = b.clone();
        encrypt::<8, 19>(&key, &tweak, &mut b);
        assert_eq!(
            b,
            hex("E304439626D45A2CB401CAD8D636249A6338330EB06D45DD8B36B90E97254779272A0A8D99463504784420EA18C9A725AF11DFFEA10162348927673D5C1CAF3D")
        );
        decrypt::<8, 19>(&key, &tweak, &mut b);
        assert_eq!(b, pt);

        let mut b = [0u8; 128];
        encrypt::<16, 21>(&[0u8; 128], &[0u8; 16], &mut b);
        assert_eq!(
            b[..],
            hex("F05C3D0A3D05B304F785DDC7D1E036015C8AA76E2F217B06C6E1544C0BC1A90DF0ACCB9473C24E0FD54FEA68057F43329CB454761D6DF5CF7B2E9B3614FBD5A2\
                 0B2E4760B40603540D82EABC5482C171C832AFBE68406BC39500367A592943FA9A5B4A43286CA3C4CF46104B443143D560A4B230488311DF4FEEF7E1DFE8391E")[..]
        );
        decrypt::<16, 21>(&[0u8; 128], &[0u8; 16], &mut b);
        assert_eq!(b, [0u8; 128]);
        let key: Vec<u8> = (0x10..0x90).collect();
        let mut b: Vec<u8> = (0..128).map(|i| 0xff - i as u8).collect();
        let pt = b.clone();
        encrypt::<16, 21>(&key, &tweak, &mut b);
        assert_eq!(b[..16], hex("A6654DDBD73CC3B05DD777105AA849BC")[..]);
        decrypt::<16, 21>(&key, &tweak, &mut b);
        assert_eq!(b, pt);
    }
}
