//! magma: Magma (= Gost89<Tc26>), the five other bundled S-box sets, and two user-supplied sets implementing the
//! public `Sbox` trait, against GOST R 34.12-2015 / GOST 28147-89 (bcref::magma), C07.
use crate::generic::*;
use crate::util::*;
use bcref::magma as r;

/// a user-supplied set of eight 4-bit permutations (what a downstream user writes)
pub enum UserPerm {}
const fn user_perm_table() -> [[u8; 16]; 8] {
    let mut t = [[0u8; 16]; 8];
    let mut i = 0;
    while i < 8 {
        let mut j = 0;
        while j < 16 {
            // x -> (a*x + b) mod 16 with odd a is a permutation of 0..16
            t[i][j] = (((2 * i + 3) * j + 5 * i + 1) % 16) as u8;
            j += 1;
        }
        i += 1;
    }
    t
}
impl magma::Sbox for UserPerm {
    const NAME: &'static str = "UserPerm";
    const SBOX: [[u8; 16]; 8] = user_perm_table();
}
/// a user-supplied set of 4-bit tables that are NOT permutations (the Feistel network inverts for any table)
pub enum UserAny {}
const fn user_any_table() -> [[u8; 16]; 8] {
    let mut t = [[0u8; 16]; 8];
    let mut i = 0;
    while i < 8 {
        let mut j = 0;
        while j < 16 {
            t[i][j] = (((j * j + 3 * i * j + i) ^ (j >> 1)) % 16) as u8;
            j += 1;
        }
        i += 1;
    }
    t
}
impl magma::Sbox for UserAny {
    const NAME: &'static str = "UserAny";
    const SBOX: [[u8; 16]; 8] = user_any_table();
}

macro_rules! gost {
    ($d:ident, $ty:ty, $name:literal, $pi:expr, [$($n:literal),*], [$($a:literal),*]) => {
        desc!($d: $ty, "magma", $name, [32], "C07", [clone, debug, alg], names [$($n),*], alg [$($a),*],
            |k, b, dec| {
                let pi: r::Pi = $pi;
                Some(if dec { r::decrypt_bytes(&pi, &arr(k), &arr(b)) } else { r::encrypt_bytes(&pi, &arr(k), &arr(b)) }.to_vec())
            });
    };
}
gost!(DMagma, magma::Magma, "Magma", r::PI_TC26, ["Magma", "Gost89"], ["magma"]);
gost!(DTest, magma::Gost89Test, "Gost89Test", r::PI_TEST, ["Gost89", "Gost89Test"], ["gost89", "testsbox"]);
gost!(DCpA, magma::Gost89CryptoProA, "Gost89CryptoProA", r::PI_CRYPTOPRO_A, ["Gost89", "Gost89CryptoProA"], ["gost89", "cryptoproa"]);
gost!(DCpB, magma::Gost89CryptoProB, "Gost89CryptoProB", r::PI_CRYPTOPRO_B, ["Gost89", "Gost89CryptoProB"], ["gost89", "cryptoprob"]);
gost!(DCpC, magma::Gost89CryptoProC, "Gost89CryptoProC", r::PI_CRYPTOPRO_C, ["Gost89", "Gost89CryptoProC"], ["gost89", "cryptoproc"]);
gost!(DCpD, magma::Gost89CryptoProD, "Gost89CryptoProD", r::PI_CRYPTOPRO_D, ["Gost89", "Gost89CryptoProD"], ["gost89", "cryptoprod"]);
gost!(DUserPerm, magma::Gost89<UserPerm>, "Gost89<UserPerm>", user_perm_table(), ["Gost89"], ["gost89", "userperm"]);
gost!(DUserAny, magma::Gost89<UserAny>, "Gost89<UserAny>", user_any_table(), ["Gost89"], ["gost89", "userany"]);

pub fn run() {
    visit::<DMagma>();
    visit::<DTest>();
    visit::<DCpA>();
    visit::<DCpB>();
    visit::<DCpC>();
    visit::<DCpD>();
    visit::<DUserPerm>();
    visit::<DUserAny>();
}
