// Reference-only lemmas about GOST R 34.12-2015 L (experiments)
//
// @module file=kuznyechik/src/lib.rs
use bcref::kuznyechik as kz;

fn any_block() -> [u8; 16] { kani::any() }

// @ob name=x_r_additive props=C07 kind=lemma timeout=600
#[kani::proof]
#[kani::unwind(17)]
fn x_r_additive() {
    let a = any_block();
    let b = any_block();
    assert!(kz::eq(&kz::r(&kz::xor(&a, &b)), &kz::xor(&kz::r(&a), &kz::r(&b))));
}

// @ob name=x_l_additive props=C07 kind=lemma timeout=600
#[kani::proof]
#[kani::unwind(17)]
fn x_l_additive() {
    let a = any_block();
    let b = any_block();
    assert!(kz::eq(&kz::l(&kz::xor(&a, &b)), &kz::xor(&kz::l(&a), &kz::l(&b))));
}

// @ob name=x_l_decomp props=C07 kind=lemma timeout=600
#[kani::proof]
#[kani::unwind(17)]
fn x_l_decomp() {
    let a = any_block();
    let mut acc = [0u8; 16];
    let mut i = 0;
    while i < 16 {
        acc = kz::xor(&acc, &kz::l(&kz::unit(i, a[i])));
        i += 1;
    }
    assert!(kz::eq(&kz::l(&a), &acc));
}
