//! (reference for gift: to be written)
