//! Blowfish (B. Schneier, "Description of a New Variable-Length Key, 64-Bit Block Cipher", FSE 1993) in the
//! paper's own single-round form, and eksblowfish's ExpandKey (Provos & Mazieres, "A Future-Adaptable Password
//! Scheme", USENIX 1999).  P and S are generated from the digits of pi (gen_blowfish_tables.py).
//! Vectors: Schneier's published test vectors (vectors.txt).

include!("blowfish_tables.rs");

#[derive(Clone)]
pub struct State {
    pub p: [u32; 18],
    pub s: [[u32; 256]; 4],
}

pub fn init_state() -> State { State { p: P, s: S } }

/// F(xL) = ((S1[a] + S2[b] mod 2^32) XOR S3[c]) + S4[d] mod 2^32, a..d = the bytes of xL from the most significant
pub fn f(st: &State, x: u32) -> u32 {
    let a = st.s[0][(x >> 24) as usize];
    let b = st.s[1][((x >> 16) & 0xff) as usize];
    let c = st.s[2][((x >> 8) & 0xff) as usize];
    let d = st.s[3][(x & 0xff) as usize];
    (a.wrapping_add(b) ^ c).wrapping_add(d)
}

/// For i = 1 to 16: xL = xL XOR Pi; xR = F(xL) XOR xR; swap.  Undo the last swap; xR ^= P17; xL ^= P18.
pub fn encrypt(st: &State, l: u32, r: u32) -> (u32, u32) {
    let (mut xl, mut xr) = (l, r);
    let mut i = 0;
    while i < 16 {
        xl ^= st.p[i];
        xr ^= f(st, xl);
        let t = xl; xl = xr; xr = t;
        i += 1;
    }
    let t = xl; xl = xr; xr = t;
    xr ^= st.p[16];
    xl ^= st.p[17];
    (xl, xr)
}
/// Decryption: the same with P1..P18 used in reverse order.
pub fn decrypt(st: &State, l: u32, r: u32) -> (u32, u32) {
    let (mut xl, mut xr) = (l, r);
    let mut i = 0;
    while i < 16 {
        xl ^= st.p[17 - i];
        xr ^= f(st, xl);
        let t = xl; xl = xr; xr = t;
        i += 1;
    }
    let t = xl; xl = xr; xr = t;
    xr ^= st.p[1];
    xl ^= st.p[0];
    (xl, xr)
}

/// k-th big-endian 32-bit word of the cyclically repeated byte string
pub fn cyc_word(buf: &[u8], k: usize) -> u32 {
    let n = buf.len();
    let mut v = 0u32;
    let mut j = 0;
    while j < 4 {
        v = (v << 8) | buf[(4 * k + j) % n] as u32;
        j += 1;
    }
    v
}

/// ExpandKey(state, salt, key) of eksblowfish; with `salt` = None it is Blowfish's own key schedule step
/// (XOR P with the cycled key, then replace P and S by chained encryptions of the running block).
pub fn expand_key(st: &mut State, salt: Option<&[u8]>, key: &[u8]) {
    let mut i = 0;
    while i < 18 {
        st.p[i] ^= cyc_word(key, i);
        i += 1;
    }
    let (mut l, mut r) = (0u32, 0u32);
    let mut t = 0; // index of the encryption (0..521)
    while t < 521 {
        if let Some(s) = salt {
            l ^= cyc_word(s, 2 * t);
            r ^= cyc_word(s, 2 * t + 1);
        }
        let (nl, nr) = encrypt(st, l, r);
        l = nl;
        r = nr;
        if t < 9 {
            st.p[2 * t] = l;
            st.p[2 * t + 1] = r;
        } else {
            let u = t - 9;
            st.s[u / 128][2 * (u % 128)] = l;
            st.s[u / 128][2 * (u % 128) + 1] = r;
        }
        t += 1;
    }
}

pub fn new(key: &[u8]) -> State {
    let mut st = init_state();
    expand_key(&mut st, None, key);
    st
}

#[cfg(test)]
mod tests {
    use super::*;
    #[test]
    fn schneier_vectors() {
        let v: [(u64, u64, u64); 6] = [
            (0x0000000000000000, 0x0000000000000000, 0x4EF997456198DD78),
            (0xFFFFFFFFFFFFFFFF, 0xFFFFFFFFFFFFFFFF, 0x51866FD5B85ECB8A),
            (0x3000000000000000, 0x1000000000000001, 0x7D856F9A613063F2),
            (0x1111111111111111, 0x1111111111111111, 0x2466DD878B963C9D),
            (0x0123456789ABCDEF, 0x1111111111111111, 0x61F9C3802281B096),
            (0xFEDCBA9876543210, 0x0123456789ABCDEF, 0x0ACEAB0FC6A0A28D),
        ];
        for (k, p, c) in v {
            let st = new(&k.to_be_bytes());
            let (l, r) = encrypt(&st, (p >> 32) as u32, p as u32);
            assert_eq!(((l as u64) << 32) | r as u64, c);
            let (l, r) = decrypt(&st, (c >> 32) as u32, c as u32);
            assert_eq!(((l as u64) << 32) | r as u64, p);
        }
    }
    #[test]
    fn zero_salt_is_plain() {
        let mut a = init_state();
        let mut b = init_state();
        expand_key(&mut a, None, b"abc");
        expand_key(&mut b, Some(&[0u8; 16]), b"abc");
        assert!(a.p == b.p && a.s == b.s);
    }
    #[test]
    fn pi_words() { assert_eq!(P[0], 0x243f6a88); assert_eq!(S[3][255], 0x3ac372e6); }
}
