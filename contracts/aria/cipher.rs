// Contracts on aria/src/lib.rs (+ the three KeyInit impls in aria128/192/256.rs): the block functions of the three
// exported types against RFC 5794 (bcref::aria) for EVERY value of the round-key arrays, the key schedules, the public
// API on bytes for every key and block, and the round trip C01 in both orders.
//
// Decomposition.  utils.rs shows that fo, fe, sl2, a ARE the RFC's A.SL1, A.SL2, SL2, A (c_fo, c_fe, c_sl2, c_a) and
// that the reference's FO / FE depend on (D, RK) only through D ^ RK (l_ref_round_xor).  Here FO, FE, SL2 are replaced on
// BOTH sides (crate::utils::* and bcref::aria::*) by record / replay uninterpreted functions (contracts/sm4/rr_uf.rs),
// so what is checked is the round structure, round-key order, rotation amounts and byte plumbing, for every FO, FE, SL2.
// For the round trip the substitution layers are abstracted to an uninterpreted bijection pair (SL1, SL2 mutually
// inverse: l_sl_inverse) and the diffusion layer is the reference's concrete A (c_a); the decryption keys are the
// RFC's function of the encryption keys (established by c_new_*).
//
// @module file=aria/src/lib.rs
use super::*;
use cipher::{Array, KeyInit};
include!("@VERIF@/contracts/sm4/rr_uf.rs");
rr_uf!(ufo, u128); // stands for x -> FO(x, 0)
rr_uf!(ufe, u128); // stands for x -> FE(x, 0)
rr_uf!(usl, u128); // stands for SL2
pub fn ref_fo(d: u128, rk: u128) -> u128 { ufo::f(d ^ rk) }
pub fn ref_fe(d: u128, rk: u128) -> u128 { ufe::f(d ^ rk) }
pub fn replay_all() { ufo::replay_fwd(); ufe::replay_fwd(); usl::replay_fwd(); }
pub fn all_done() -> bool { ufo::done() && ufe::done() && usl::done() }

pub fn any128() -> Aria128 { Aria { ek: kani::any(), dk: kani::any() } }
pub fn any192() -> Aria192 { Aria { ek: kani::any(), dk: kani::any() } }
pub fn any256() -> Aria256 { Aria { ek: kani::any(), dk: kani::any() } }

pub fn eq_bytes16(a: &[u8; 16], b: &[u8; 16]) -> bool {
    let mut ok = true;
    let mut i = 0;
    while i < 16 {
        ok &= a[i] == b[i];
        i += 1;
    }
    ok
}
pub fn eq_words(a: &[u128], b: &[u128], n: usize) -> bool {
    let mut ok = true;
    let mut i = 0;
    while i < n {
        ok &= a[i] == b[i];
        i += 1;
    }
    ok
}
pub fn enc<C: cipher::BlockCipherEncrypt + cipher::BlockSizeUser<BlockSize = U16>>(c: &C, b: [u8; 16]) -> [u8; 16] {
    let mut blk = Array(b);
    cipher::BlockCipherEncrypt::encrypt_block(c, &mut blk);
    blk.0
}
pub fn dec<C: cipher::BlockCipherDecrypt + cipher::BlockSizeUser<BlockSize = U16>>(c: &C, b: [u8; 16]) -> [u8; 16] {
    let mut blk = Array(b);
    cipher::BlockCipherDecrypt::decrypt_block(c, &mut blk);
    blk.0
}

// ---------------------------------------------------------------- block functions == RFC 5794 2.3, every round-key state
// n rounds: FO is called n/2 times, FE n/2 - 1 times, SL2 once.
macro_rules! block {
    ($enc:ident, $dec:ident, $mk:ident, $n:expr) => {
        #[kani::proof]
        #[kani::stub(crate::utils::fo, ufo::f)]
        #[kani::stub(crate::utils::fe, ufe::f)]
        #[kani::stub(crate::utils::sl2, usl::f)]
        #[kani::stub(bcref::aria::fo, ref_fo)]
        #[kani::stub(bcref::aria::fe, ref_fe)]
        #[kani::stub(bcref::aria::sl2, usl::f)]
        #[kani::unwind(19)]
        fn $enc() {
            let c = $mk();
            let b: [u8; 16] = kani::any();
            let r = u128::from_be_bytes(enc(&c, b));
            replay_all();
            let e = bcref::aria::crypt(&c.ek, $n, u128::from_be_bytes(b));
            assert!(all_done() && ufo::calls() == $n / 2 && ufe::calls() == $n / 2 - 1 && usl::calls() == 1);
            assert!(r == e);
        }
        #[kani::proof]
        #[kani::stub(crate::utils::fo, ufo::f)]
        #[kani::stub(crate::utils::fe, ufe::f)]
        #[kani::stub(crate::utils::sl2, usl::f)]
        #[kani::stub(bcref::aria::fo, ref_fo)]
        #[kani::stub(bcref::aria::fe, ref_fe)]
        #[kani::stub(bcref::aria::sl2, usl::f)]
        #[kani::unwind(19)]
        fn $dec() {
            let c = $mk();
            let b: [u8; 16] = kani::any();
            let r = u128::from_be_bytes(dec(&c, b));
            replay_all();
            let e = bcref::aria::crypt(&c.dk, $n, u128::from_be_bytes(b));
            assert!(all_done() && ufo::calls() == $n / 2 && ufe::calls() == $n / 2 - 1 && usl::calls() == 1);
            assert!(r == e);
        }
    };
}
// @ob name=c_enc_128 props=C06,C20 fn=aria::Aria128::encrypt_block uses=c_fo,c_fe,c_sl2,l_ref_round_xor timeout=300
// @ob name=c_dec_128 props=C06,C20 fn=aria::Aria128::decrypt_block uses=c_fo,c_fe,c_sl2,l_ref_round_xor timeout=300
block!(c_enc_128, c_dec_128, any128, 12);
// @ob name=c_enc_192 props=C06,C20 fn=aria::Aria192::encrypt_block uses=c_fo,c_fe,c_sl2,l_ref_round_xor timeout=300
// @ob name=c_dec_192 props=C06,C20 fn=aria::Aria192::decrypt_block uses=c_fo,c_fe,c_sl2,l_ref_round_xor timeout=300
block!(c_enc_192, c_dec_192, any192, 14);
// @ob name=c_enc_256 props=C06,C20 fn=aria::Aria256::encrypt_block uses=c_fo,c_fe,c_sl2,l_ref_round_xor timeout=300
// @ob name=c_dec_256 props=C06,C20 fn=aria::Aria256::decrypt_block uses=c_fo,c_fe,c_sl2,l_ref_round_xor timeout=300
block!(c_enc_256, c_dec_256, any256, 16);

// ---------------------------------------------------------------- key schedules (KeyInit::new) == RFC 5794 2.2
// ek == ek1..ek_{n+1} of the RFC, dk == the RFC's decryption keys dk1..dk_{n+1} computed from them.
macro_rules! newkey {
    ($name:ident, $ty:ident, $klen:expr, $n:expr) => {
        #[kani::proof]
        #[kani::stub(crate::utils::fo, ufo::f)]
        #[kani::stub(crate::utils::fe, ufe::f)]
        #[kani::stub(crate::utils::a, bcref::aria::a)]
        #[kani::stub(bcref::aria::fo, ref_fo)]
        #[kani::stub(bcref::aria::fe, ref_fe)]
        #[kani::unwind(33)]
        fn $name() {
            let k: [u8; $klen] = kani::any();
            let c = $ty::new(&Array(k));
            replay_all();
            let ek = bcref::aria::key_schedule(&k);
            let dk = bcref::aria::dec_keys(&ek, $n);
            assert!(all_done() && ufo::calls() == 2 && ufe::calls() == 1);
            assert!(eq_words(&c.ek, &ek, $n + 1));
            assert!(eq_words(&c.dk, &dk, $n + 1));
        }
    };
}
// @ob name=c_new_128 props=C06,C20 fn=aria::Aria128::new uses=c_fo,c_fe,c_a,l_ref_round_xor,x_tables timeout=300
newkey!(c_new_128, Aria128, 16, 12);
// @ob name=c_new_192 props=C06,C20 fn=aria::Aria192::new uses=c_fo,c_fe,c_a,l_ref_round_xor,x_tables timeout=300
newkey!(c_new_192, Aria192, 24, 14);
// @ob name=c_new_256 props=C06,C20 fn=aria::Aria256::new uses=c_fo,c_fe,c_a,l_ref_round_xor,x_tables timeout=300
newkey!(c_new_256, Aria256, 32, 16);

// ---------------------------------------------------------------- public API on bytes, every key and block
macro_rules! api {
    ($enc:ident, $dec:ident, $ty:ident, $klen:expr, $n:expr) => {
        #[kani::proof]
        #[kani::stub(crate::utils::fo, ufo::f)]
        #[kani::stub(crate::utils::fe, ufe::f)]
        #[kani::stub(crate::utils::sl2, usl::f)]
        #[kani::stub(crate::utils::a, bcref::aria::a)]
        #[kani::stub(bcref::aria::fo, ref_fo)]
        #[kani::stub(bcref::aria::fe, ref_fe)]
        #[kani::stub(bcref::aria::sl2, usl::f)]
        #[kani::unwind(33)]
        fn $enc() {
            let k: [u8; $klen] = kani::any();
            let b: [u8; 16] = kani::any();
            let c = $ty::new(&Array(k));
            let r = enc(&c, b);
            replay_all();
            let e = bcref::aria::encrypt(&k, &b);
            assert!(all_done() && ufo::calls() == 2 + $n / 2 && ufe::calls() == $n / 2 && usl::calls() == 1);
            assert!(eq_bytes16(&r, &e));
        }
        #[kani::proof]
        #[kani::stub(crate::utils::fo, ufo::f)]
        #[kani::stub(crate::utils::fe, ufe::f)]
        #[kani::stub(crate::utils::sl2, usl::f)]
        #[kani::stub(crate::utils::a, bcref::aria::a)]
        #[kani::stub(bcref::aria::fo, ref_fo)]
        #[kani::stub(bcref::aria::fe, ref_fe)]
        #[kani::stub(bcref::aria::sl2, usl::f)]
        #[kani::unwind(33)]
        fn $dec() {
            let k: [u8; $klen] = kani::any();
            let b: [u8; 16] = kani::any();
            let c = $ty::new(&Array(k));
            let r = dec(&c, b);
            replay_all();
            let e = bcref::aria::decrypt(&k, &b);
            assert!(all_done() && ufo::calls() == 2 + $n / 2 && ufe::calls() == $n / 2 && usl::calls() == 1);
            assert!(eq_bytes16(&r, &e));
        }
    };
}
// @ob name=c_api_enc_128 props=C06,C20 fn=aria::Aria128::new,aria::Aria128::encrypt_block uses=c_fo,c_fe,c_sl2,c_a,l_ref_round_xor timeout=600
// @ob name=c_api_dec_128 props=C06,C20 fn=aria::Aria128::new,aria::Aria128::decrypt_block uses=c_fo,c_fe,c_sl2,c_a,l_ref_round_xor timeout=600
api!(c_api_enc_128, c_api_dec_128, Aria128, 16, 12);
// @ob name=c_api_enc_192 props=C06,C20 fn=aria::Aria192::new,aria::Aria192::encrypt_block uses=c_fo,c_fe,c_sl2,c_a,l_ref_round_xor timeout=600
// @ob name=c_api_dec_192 props=C06,C20 fn=aria::Aria192::new,aria::Aria192::decrypt_block uses=c_fo,c_fe,c_sl2,c_a,l_ref_round_xor timeout=600
api!(c_api_enc_192, c_api_dec_192, Aria192, 24, 14);
// @ob name=c_api_enc_256 props=C06,C20 fn=aria::Aria256::new,aria::Aria256::encrypt_block uses=c_fo,c_fe,c_sl2,c_a,l_ref_round_xor timeout=600
// @ob name=c_api_dec_256 props=C06,C20 fn=aria::Aria256::new,aria::Aria256::decrypt_block uses=c_fo,c_fe,c_sl2,c_a,l_ref_round_xor timeout=600
api!(c_api_enc_256, c_api_dec_256, Aria256, 32, 16);

// ---------------------------------------------------------------- C01 round trips, both orders
// For every value of the encryption keys, with the decryption keys the RFC's function of them (what `new` computes:
// c_new_*).  Substitution layers: one uninterpreted bijection pair.  `s1` / `s2` stand for SL1 / SL2; in the first
// (recorded) run their results are unconstrained, in the second run the k-th call must be the inverse of the
// (N-1-k)-th recorded call: its argument must equal that call's result, the layer type must be the opposite one
// (SL1 undoes SL2 and vice versa, l_sl_inverse), and it returns that call's argument.
// Solver: the remaining reasoning is GF(2)-linear (A is an involution, A(x ^ k) = A(x) ^ A(k)): z3 6 s, CaDiCaL > 400 s.
rr_uf!(usub, u128);
pub static mut TAG: [u8; 72] = [0; 72];
#[allow(static_mut_refs)]
fn layer(x: u128, tag: u8) -> u128 {
    unsafe {
        if usub::MODE == 0 {
            TAG[usub::N] = tag;
        } else {
            assert!(usub::R < usub::N);
            assert!(TAG[usub::N - 1 - usub::R] == 3 - tag);
        }
    }
    usub::f(x)
}
fn s1(x: u128) -> u128 { layer(x, 1) }
fn s2(x: u128) -> u128 { layer(x, 2) }
fn rt_fo(x: u128) -> u128 { bcref::aria::a(s1(x)) }
fn rt_fe(x: u128) -> u128 { bcref::aria::a(s2(x)) }

macro_rules! roundtrip {
    ($fwd:ident, $rev:ident, $n:expr) => {
        #[kani::proof]
        #[kani::solver(z3)]
        #[kani::stub(crate::utils::fo, rt_fo)]
        #[kani::stub(crate::utils::fe, rt_fe)]
        #[kani::stub(crate::utils::sl2, s2)]
        #[kani::unwind(19)]
        fn $fwd() {
            let ek: [u128; $n + 1] = kani::any();
            let mut ek17 = [0u128; 17];
            let mut i = 0;
            while i < $n + 1 { ek17[i] = ek[i]; i += 1; }
            let dk17 = bcref::aria::dec_keys(&ek17, $n);
            let mut dk = [0u128; $n + 1];
            let mut i = 0;
            while i < $n + 1 { dk[i] = dk17[i]; i += 1; }
            let c: Aria<{ $n + 1 }> = Aria { ek, dk };
            let b: [u8; 16] = kani::any();
            let y = enc(&c, b);
            assert!(usub::calls() == $n);
            usub::inverse_bwd();
            let x = dec(&c, y);
            assert!(usub::done());
            assert!(eq_bytes16(&x, &b));
        }
        #[kani::proof]
        #[kani::solver(z3)]
        #[kani::stub(crate::utils::fo, rt_fo)]
        #[kani::stub(crate::utils::fe, rt_fe)]
        #[kani::stub(crate::utils::sl2, s2)]
        #[kani::unwind(19)]
        fn $rev() {
            let ek: [u128; $n + 1] = kani::any();
            let mut ek17 = [0u128; 17];
            let mut i = 0;
            while i < $n + 1 { ek17[i] = ek[i]; i += 1; }
            let dk17 = bcref::aria::dec_keys(&ek17, $n);
            let mut dk = [0u128; $n + 1];
            let mut i = 0;
            while i < $n + 1 { dk[i] = dk17[i]; i += 1; }
            let c: Aria<{ $n + 1 }> = Aria { ek, dk };
            let b: [u8; 16] = kani::any();
            let y = dec(&c, b);
            assert!(usub::calls() == $n);
            usub::inverse_bwd();
            let x = enc(&c, y);
            assert!(usub::done());
            assert!(eq_bytes16(&x, &b));
        }
    };
}
// @ob name=l_roundtrip_128 props=C01 kind=lemma fn=aria::Aria128::encrypt_block,aria::Aria128::decrypt_block uses=c_fo,c_fe,c_sl2,l_sl_inverse,c_new_128 solver=z3 timeout=600
// @ob name=l_roundtrip_rev_128 props=C01 kind=lemma fn=aria::Aria128::encrypt_block,aria::Aria128::decrypt_block uses=c_fo,c_fe,c_sl2,l_sl_inverse,c_new_128 solver=z3 timeout=600
roundtrip!(l_roundtrip_128, l_roundtrip_rev_128, 12);
// @ob name=l_roundtrip_192 props=C01 kind=lemma fn=aria::Aria192::encrypt_block,aria::Aria192::decrypt_block uses=c_fo,c_fe,c_sl2,l_sl_inverse,c_new_192 solver=z3 timeout=600
// @ob name=l_roundtrip_rev_192 props=C01 kind=lemma fn=aria::Aria192::encrypt_block,aria::Aria192::decrypt_block uses=c_fo,c_fe,c_sl2,l_sl_inverse,c_new_192 solver=z3 timeout=600
roundtrip!(l_roundtrip_192, l_roundtrip_rev_192, 14);
// @ob name=l_roundtrip_256 props=C01 kind=lemma fn=aria::Aria256::encrypt_block,aria::Aria256::decrypt_block uses=c_fo,c_fe,c_sl2,l_sl_inverse,c_new_256 solver=z3 timeout=600
// @ob name=l_roundtrip_rev_256 props=C01 kind=lemma fn=aria::Aria256::encrypt_block,aria::Aria256::decrypt_block uses=c_fo,c_fe,c_sl2,l_sl_inverse,c_new_256 solver=z3 timeout=600
roundtrip!(l_roundtrip_256, l_roundtrip_rev_256, 16);
