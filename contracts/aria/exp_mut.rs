// sanity mutations (temporary): every harness here must be REFUTED
// @module file=aria/src/lib.rs
use super::*;
use super::__vp_cipher::*;
use cipher::{Array, KeyInit};
// Aria192 key schedule compared with the reference run with the constants order of ARIA-256
// @ob name=mut_new192 props=C06 fn=x timeout=300
#[kani::proof]
#[kani::stub(crate::utils::fo, ufo::f)]
#[kani::stub(crate::utils::fe, ufe::f)]
#[kani::stub(crate::utils::a, bcref::aria::a)]
#[kani::stub(bcref::aria::fo, ref_fo)]
#[kani::stub(bcref::aria::fe, ref_fe)]
#[kani::unwind(33)]
fn mut_new192() {
    let k: [u8; 24] = kani::any();
    let c = Aria192::new(&Array(k));
    replay_all();
    let (kl, kr) = bcref::aria::klkr(&k);
    let ek = bcref::aria::enc_keys(&bcref::aria::w_of(kl, kr, 256));
    assert!(all_done());
    assert!(eq_words(&c.ek, &ek, 15));
}
// decryption compared with the reference run on the ENCRYPTION keys
// @ob name=mut_dec128 props=C06 fn=x timeout=300
#[kani::proof]
#[kani::stub(crate::utils::fo, ufo::f)]
#[kani::stub(crate::utils::fe, ufe::f)]
#[kani::stub(crate::utils::sl2, usl::f)]
#[kani::stub(bcref::aria::fo, ref_fo)]
#[kani::stub(bcref::aria::fe, ref_fe)]
#[kani::stub(bcref::aria::sl2, usl::f)]
#[kani::unwind(19)]
fn mut_dec128() {
    let c = any128();
    let b: [u8; 16] = kani::any();
    let r = u128::from_be_bytes(dec(&c, b));
    replay_all();
    let e = bcref::aria::crypt(&c.ek, 12, u128::from_be_bytes(b));
    assert!(all_done());
    assert!(r == e);
}
