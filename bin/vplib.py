#!/usr/bin/env python3
"""Shared machinery for /verif: ledger, scratch copy + injection, Kani / Verus / native runners,
evidence, replay.  See DESIGN.md section 2.

Ledger format: every file /verif/contracts/<crate>/<name>.rs is a Rust module that is compiled as a
*child module* of one source file of the real crate (in a scratch copy of /repo's working tree).
Directive comments in it drive everything:

  // @module file=<path in repo> [name=<mod ident>] [modcfg='feature="x"']   (modcfg: extra cfg predicate guarding the module)
        which real source file this module is appended to (as `#[cfg(kani)] mod <name>;`)
  // @attr file=<path in repo> anchor=<text of the fn header, e.g. "fn pc1("> [nth=1] :: <attribute text>
        insert `#[cfg_attr(kani, <attribute text>)]` on the line before the anchored item
        (pure insertion; anchor must match exactly once unless nth given)
  // @shadow src=<repo file> dst=<new file name in the same directory> sub="from=>to" ...   (copy with logged textual substitutions)
  // @crateattr <inner attribute text, e.g. recursion_limit = "1024">   (inserted as #![cfg_attr(kani, ...)] at the top of lib.rs)
  // @config name=<cfg> [features=a,b] [rustflags="--cfg x"] [no_default_features=1]
  // @ob name=<harness fn> props=C05,C20 [tier=quick|thorough] [kind=contract|lemma|frame|bounded|exhaustive|...]
  //     [solver=cadical|kissat|minisat|z3|cvc5] [timeout=<s>] [cfg=<config name>] [fn=<real function(s) under contract>]
  //     [bound="..."] [expect=fail finding=<KNOWN_FINDINGS key>]  [note="..."]
"""
import os, re, sys, json, time, shlex, shutil, subprocess, tempfile, hashlib, resource, threading
from concurrent.futures import ThreadPoolExecutor
from pathlib import Path

VERIF = Path(__file__).resolve().parent.parent
REPO = Path(os.environ.get("VP_REPO", "/repo"))
CONTRACTS = VERIF / "contracts"
NCPU = os.cpu_count() or 4
MEM_LIMIT_GB = int(os.environ.get("VP_MEM_GB", "32"))

TRUSTED_BASE = [
    "rustc (Kani's pinned nightly; Verus' pinned 1.98.1), Kani 0.68 MIR->GOTO translation and its models of core (memcpy, slices, fmt)",
    "CBMC 6.11 and the SAT/SMT back ends it calls (CaDiCaL, Kissat, MiniSat, Z3, cvc5)",
    "Verus 0.2026.09.13 + Z3 (for obligations with engine=verus)",
    "/verif/refs (bcref): transcription of each standard, anchored by the standards' published vectors in its own tests",
    "/verif/intrinsics/x86_aes.rs, aarch64_aes.rs and aarch64_neon.rs: software models of the AES instructions and of the 14 NEON intrinsics used by kuznyechik::neon (Intel SDM / Arm ARM pseudocode over bcref::aes), non-deterministic CPUID; ARMv8 sources are compiled as logged textual shadow copies (intrinsics import redirected to the models)",
    "dependency crates cipher, inout, hybrid-array, crypto-common, typenum, byteorder, zeroize, cpufeatures: compiled and executed as they are by Kani (not assumed) unless an obligation says 'stub'",
    "injection is insertion-only (checked on every run by diff) so the compiled function bodies are /repo's working tree",
]


def sh(cmd, **kw):
    return subprocess.run(cmd, shell=isinstance(cmd, str), text=True, capture_output=True, **kw)


# ----------------------------------------------------------------------------- ledger

def parse_kv(s):
    out = {}
    for tok in shlex.split(s):
        if "=" in tok:
            k, v = tok.split("=", 1)
            out[k] = v
        else:
            out[tok] = "1"
    return out


class Module:
    def __init__(self, crate, path):
        self.crate = crate
        self.path = path
        self.file = None        # repo-relative file this module is a child of
        self.name = "__vp_" + re.sub(r"\W", "_", path.stem)
        self.attrs = []         # dicts: file, anchor, nth, text
        self.configs = {}
        self.crateattrs = []
        self.shadows = []
        self.modcfg = None
        self.obs = []
        self.kind = "kani"
        self.parse()

    def parse(self):
        txt = self.path.read_text()
        lines = txt.split("\n")
        i = 0
        while i < len(lines):
            ln = lines[i].strip()
            m = re.match(r"//\s*@(\w+)\s+(.*)$", ln)
            if not m:
                i += 1
                continue
            kind, rest = m.group(1), m.group(2)
            # continuation lines: following lines starting with "//     " (>=4 spaces) and not a new directive
            while i + 1 < len(lines) and re.match(r"\s*//\s{4,}\S", lines[i + 1]) and "@" not in lines[i + 1].split("//", 1)[1][:8]:
                rest += " " + lines[i + 1].split("//", 1)[1].strip()
                i += 1
            if kind == "module":
                kv = parse_kv(rest)
                self.file = kv["file"]
                self.modcfg = kv.get("modcfg")   # extra cfg predicate for the injected module, e.g. feature="hazmat"
                if "name" in kv:
                    self.name = kv["name"]
            elif kind == "attr":
                head, _, text = rest.partition("::")
                kv = parse_kv(head)
                self.attrs.append(dict(file=kv.get("file"), anchor=kv["anchor"], nth=int(kv.get("nth", "0")), text=text.strip()))
            elif kind == "shadow":
                # @shadow src=<repo file> dst=<file name next to src> sub="from=>to" [sub=...]: a copy of a real source file
                # with LOGGED textual substitutions (used only for code the host cannot compile, e.g. aarch64 intrinsics ->
                # software models); the copy is compiled as an extra module declared by the contract module.
                toks = shlex.split(rest)
                sh_ = dict(src=None, dst=None, subs=[])
                for t in toks:
                    k_, _, v_ = t.partition("=")
                    if k_ == "sub":
                        a_, _, b_ = v_.partition("=>")
                        sh_["subs"].append((a_, b_))
                    else:
                        sh_[k_] = v_
                self.shadows.append(sh_)
            elif kind == "crateattr":
                self.crateattrs.append(rest.strip())
            elif kind == "config":
                kv = parse_kv(rest)
                self.configs[kv["name"]] = kv
            elif kind == "ob":
                kv = parse_kv(rest)
                kv["props"] = kv["props"].split(",")
                kv.setdefault("tier", "quick")
                kv.setdefault("kind", "contract")
                kv.setdefault("solver", "cadical")
                kv.setdefault("timeout", "300")
                kv.setdefault("cfg", "default")
                kv.setdefault("engine", "kani")
                kv["crate"] = self.crate
                kv["module"] = self
                # every entry point of a type (multi-block, buffer-to-buffer) belongs to "the type computes the standard's
                # function for every key and block": dispatch obligations also serve the crate's conformance property
                conf = CONFORMANCE_PROP.get(self.crate)
                if conf and "C04" in kv["props"] and conf not in kv["props"]:
                    kv["props"] = kv["props"] + [conf]
                cfgs = kv["cfg"].split(",")
                for c in cfgs:   # cfg=a,b : the same harness is an obligation under each listed configuration
                    k2 = dict(kv)
                    k2["cfg"] = c
                    # a conformance obligation discharged under a non-default build configuration of a crate that has several
                    # backends is, by that, also an obligation of C03 (every configuration equals the same reference)
                    if c not in ("default", "zeroize", "hazmat") and "zeroize" not in c and conf and conf in k2["props"] and "C03" not in k2["props"] and self.crate in ("aes", "kuznyechik", "serpent"):
                        k2["props"] = k2["props"] + ["C03"]
                    k2["id"] = f"{self.crate}.{self.path.stem}.{kv['name']}" + ("" if len(cfgs) == 1 else f"@{c}")
                    self.obs.append(k2)
            i += 1
        for a in self.attrs:
            if a["file"] is None:
                a["file"] = self.file


def load_ledger():
    mods = []
    for d in sorted(CONTRACTS.iterdir()):
        if not d.is_dir():
            continue
        for f in sorted(d.glob("*.rs")):
            m = Module(d.name, f)
            if m.file is None:
                continue
            mods.append(m)
    return mods


CONFORMANCE_PROP = {"aes": "C02", "des": "C05", "aria": "C06", "camellia": "C06", "sm4": "C06", "kuznyechik": "C07", "magma": "C07",
                    "belt-block": "C07", "serpent": "C08", "twofish": "C08", "cast6": "C08", "blowfish": "C09", "cast5": "C09",
                    "idea": "C09", "rc2": "C09", "xtea": "C09", "rc5": "C10", "speck": "C10", "threefish": "C10", "gift": "C10"}
CRATE_DIR = {"belt-block": "belt-block", "gift-cipher": "gift", "speck-cipher": "speck"}
PKG_NAME = {"gift": "gift-cipher", "speck": "speck-cipher"}


def crate_dir(crate):
    return crate  # contracts/<dir name in repo>


def pkg_name(crate):
    return PKG_NAME.get(crate, crate)


# ----------------------------------------------------------------------------- scratch + injection

class Scratch:
    def __init__(self, keep=False):
        base = os.environ.get("VP_SCRATCH") or "/var/tmp"
        os.makedirs(base, exist_ok=True)
        self.root = Path(tempfile.mkdtemp(prefix="vp-scratch-", dir=base))
        self.src = self.root / "src"
        self.keep = keep
        self.injected = {}   # crate -> diffstat
        self.lock = threading.Lock()
        r = sh(["rsync", "-a", "--exclude", "target", "--exclude", ".git", str(REPO) + "/", str(self.src) + "/"])
        if r.returncode != 0:
            raise RuntimeError("rsync failed: " + r.stderr)

    def vp_root(self):
        """Snapshot of /verif/contracts and /verif/intrinsics inside the scratch directory: `@VERIF@` in contract modules
        and include files points here, so that Kani's in-place concrete playback can never rewrite files under /verif."""
        root = self.root / "vp"
        if not root.exists():
            for d in ("contracts", "intrinsics"):
                if (VERIF / d).exists():
                    shutil.copytree(VERIF / d, root / d)
            for f in root.rglob("*"):
                if f.is_file() and f.suffix in (".rs", ".inc"):
                    t = f.read_text()
                    if "@VERIF@" in t:
                        f.write_text(t.replace("@VERIF@", str(root)))
        return root

    def cleanup(self):
        if not self.keep:
            shutil.rmtree(self.root, ignore_errors=True)

    def inject_crate(self, crate, mods):
        """Insert contract attributes and child modules for one crate. Returns list of problems (lost anchors)."""
        with self.lock:
            if crate in self.injected:
                return self.injected[crate]["problems"]
            problems = []
            inserted = 0
            edits = {}  # file -> list of (line_index, text)
            tails = {}
            root_rs = self.src / crate_dir(crate) / "src" / "lib.rs"
            forbids_unsafe = root_rs.exists() and "forbid(unsafe_code)" in root_rs.read_text()
            for m in mods:
                if m.crate != crate:
                    continue
                fpath = self.src / m.file
                if not fpath.exists():
                    problems.append(f"lost anchor: file {m.file} (module {m.path.name})")
                    continue
                # copy module next to the file so that concrete playback can edit it in place
                dst = fpath.parent / f"{m.name}.rs"
                if fpath.name not in ("lib.rs", "mod.rs", "main.rs"):
                    # child of a non-mod-rs file: path attribute is relative to the file's directory
                    pass
                dst.write_text(m.path.read_text().replace("@VERIF@", str(self.vp_root())) + PLAYBACK_PRELUDE)
                tails.setdefault(m.file, []).append(
                    f'#[cfg({"all(kani, " + m.modcfg + ")" if m.modcfg else "kani"})] #[allow({"" if forbids_unsafe else "unsafe_code, "}dead_code, unused_imports, unused, missing_docs, clippy::all)] #[path = "{dst}"] pub(crate) mod {m.name};')
                for a in m.attrs:
                    ap = self.src / a["file"]
                    if not ap.exists():
                        problems.append(f"lost anchor: file {a['file']}")
                        continue
                    src_lines = edits.setdefault(a["file"], {"lines": ap.read_text().split("\n"), "ins": []})
                    hits = [k for k, l in enumerate(src_lines["lines"]) if a["anchor"] in l and not l.lstrip().startswith("//")]
                    if a["nth"]:
                        if len(hits) < a["nth"]:
                            problems.append(f"lost anchor: {a['file']} :: {a['anchor']} (#{a['nth']})")
                            continue
                        hit = hits[a["nth"] - 1]
                    else:
                        if len(hits) != 1:
                            problems.append(f"lost anchor: {a['file']} :: {a['anchor']} ({len(hits)} matches)")
                            continue
                        hit = hits[0]
                    # walk up over existing attributes / doc comments so we insert before them
                    k = hit
                    while k > 0 and src_lines["lines"][k - 1].lstrip().startswith(("#[", "///")):
                        k -= 1
                    indent = re.match(r"\s*", src_lines["lines"][hit]).group(0)
                    src_lines["ins"].append((k, f"{indent}#[cfg_attr(kani, {a['text']})]"))
            shadow_log = []
            for m in mods:
                if m.crate != crate:
                    continue
                for sh_ in m.shadows:
                    sp = self.src / sh_["src"]
                    if not sp.exists():
                        problems.append(f"lost anchor: shadow source {sh_['src']}")
                        continue
                    t = sp.read_text()
                    for a_, b_ in sh_["subs"]:
                        n_ = t.count(a_)
                        if n_ == 0:
                            problems.append(f"lost anchor: shadow substitution `{a_}` does not occur in {sh_['src']}")
                        t = t.replace(a_, b_)
                        shadow_log.append(f"{sh_['src']} -> {sh_['dst']}: `{a_}` => `{b_}` ({n_}x)")
                    (sp.parent / sh_["dst"]).write_text(t)
            for f, e in edits.items():
                lines = e["lines"]
                for k, text in sorted(e["ins"], key=lambda t: -t[0]):
                    lines.insert(k, text)
                    inserted += 1
                (self.src / f).write_text("\n".join(lines))
            for f, ts in tails.items():
                with open(self.src / f, "a") as fh:
                    fh.write("\n" + "\n".join(ts) + "\n")
                    inserted += len(ts)
            # crate-level attributes requested by modules (e.g. recursion_limit for harnesses with many stubs): inserted
            # as the first line of the crate root, under cfg(kani)
            cattrs = sorted({a for m in mods if m.crate == crate for a in m.crateattrs})
            root = self.src / crate_dir(crate) / "src" / "lib.rs"
            if cattrs and root.exists():
                root.write_text("".join(f"#![cfg_attr(kani, {a})]\n" for a in cattrs) + root.read_text())
                inserted += len(cattrs)
            # bcref dependency (reference algorithms) for cfg(kani) builds only
            ct = self.src / crate_dir(crate) / "Cargo.toml"
            if ct.exists() and (VERIF / "refs" / "Cargo.toml").exists():
                with open(ct, "a") as fh:
                    fh.write(f'\n[target.\'cfg(kani)\'.dependencies]\nbcref = {{ path = "{VERIF}/refs" }}\n')
                txt = ct.read_text()
                if "unexpected_cfgs" not in txt:
                    with open(ct, "a") as fh:
                        fh.write('\n[lints.rust.unexpected_cfgs]\nlevel = "allow"\n')
            # insertion-only check
            d = sh(["diff", "-r", "-x", "target", "-x", ".git", "-x", "Cargo.toml", "-x", "Cargo.lock", str(REPO / crate_dir(crate) / "src"), str(self.src / crate_dir(crate) / "src")])
            removed = [l for l in d.stdout.split("\n") if l.startswith("< ")]
            added = [l for l in d.stdout.split("\n") if l.startswith("> ")]
            if removed:
                problems.append(f"injection is not insertion-only in {crate}: {removed[:3]}")
            self.injected[crate] = dict(problems=problems, inserted_lines=len(added), removed_lines=len(removed), shadow_copies=shadow_log)
            return problems


# ----------------------------------------------------------------------------- Kani runner

def _limits():
    lim = MEM_LIMIT_GB * 1024 ** 3
    try:
        resource.setrlimit(resource.RLIMIT_AS, (lim, lim))
    except Exception:
        pass


# concrete-playback tests generated by Kani use Vec / vec!, the crates are no_std
PLAYBACK_PRELUDE = """
#[cfg(test)] extern crate std;
#[cfg(test)] #[allow(unused_imports)] use std::{vec, vec::Vec};
"""

def run_in_group(cmd, cwd, env, timeout):
    """Run a command in its own session; afterwards kill whatever is left of the session (SMT solvers started by
    CBMC survive a harness time-out as orphans and keep burning a core for hours)."""
    import signal
    def pre():
        os.setsid()
        _limits()
    p = subprocess.Popen(cmd, cwd=cwd, env=env, text=True, stdout=subprocess.PIPE, stderr=subprocess.STDOUT, preexec_fn=pre)
    try:
        out, _ = p.communicate(timeout=timeout)
        rc = p.returncode
    except subprocess.TimeoutExpired:
        rc = -9
        out = ""
    finally:
        try:
            os.killpg(p.pid, signal.SIGKILL)
        except ProcessLookupError:
            pass
        try:
            o2, _ = p.communicate(timeout=10)
            out = out or o2 or ""
        except Exception:
            pass
    return out or "", rc


RESULT_RE = re.compile(r"^Thread (\d+): Checking harness (\S+?)\.\.\.")


def parse_kani_output(out):
    """Return {harness_full_name: dict(status, checks, failed, covers, failed_checks, time)}"""
    res = {}
    cur_by_thread = {}
    lines = out.split("\n")
    i = 0
    single = None
    while i < len(lines):
        l = lines[i]
        m = RESULT_RE.match(l)
        if m:
            cur_by_thread[m.group(1)] = m.group(2)
            i += 1
            continue
        m = re.match(r"^Checking harness (\S+?)\.\.\.", l)
        if m:
            single = m.group(1)
            cur_by_thread["S"] = single
            i += 1
            continue
        m = re.match(r"^Thread (\d+): ?$", l)
        if m or (single and l.startswith("VERIFICATION RESULT") or (single and l.startswith("CBMC failed"))):
            th = m.group(1) if m else "S"
            h = cur_by_thread.get(th)
            blk = []
            j = i + 1 if m else i
            while j < len(lines) and not lines[j].startswith(("Thread ", "Manual Harness Summary", "Checking harness", "Complete - ")):
                blk.append(lines[j])
                j += 1
            b = "\n".join(blk)
            r = dict(status="unknown", checks=0, failed=0, covers=None, failed_checks=[], time=None, raw=b[-3000:])
            mm = re.search(r"\*\* (\d+) of (\d+) failed", b)
            if mm:
                r["failed"], r["checks"] = int(mm.group(1)), int(mm.group(2))
            mm = re.search(r"\*\* (\d+) of (\d+) cover properties satisfied", b)
            if mm:
                r["covers"] = (int(mm.group(1)), int(mm.group(2)))
            r["failed_checks"] = re.findall(r"Failed Checks: (.*)\n File: \"([^\"]*)\", line (\d+)", b)
            mm = re.search(r"Verification Time: ([\d.]+)s", b)
            if mm:
                r["time"] = float(mm.group(1))
            if "VERIFICATION:- SUCCESSFUL" in b:
                r["status"] = "success"
            elif "CBMC timed out" in b:
                r["status"] = "timeout"
            elif "VERIFICATION:- FAILED" in b:
                if mm is None and r["checks"] == 0:
                    r["status"] = "error"   # CBMC crashed / OOM / unsupported
                else:
                    r["status"] = "failed"
                if "CBMC failed" in b and r["checks"] == 0:
                    r["status"] = "error"
                    if "out of memory" in b.lower() or "bad_alloc" in b:
                        r["status"] = "oom"
            if h:
                res[h] = r
            i = j
            continue
        i += 1
    return res


def run_kani_group(scratch, crate, cfg, obs, jobs, solver_override=None, extra_timeout=None, tag=""):
    """One cargo kani invocation for all obligations of (crate, cfg)."""
    cfgd = {}
    for o in obs:
        c = o["module"].configs.get(cfg)
        if c:
            cfgd = c
    # search configs crate-wide
    if not cfgd and cfg != "default":
        for o in obs:
            for m in o["_allmods"]:
                if m.crate == crate and cfg in m.configs:
                    cfgd = m.configs[cfg]
    tdir = scratch.root / f"target-{crate}-{cfg}{tag}"
    # floor of 20 minutes: the quick tier only contains obligations measured at <= 200 s, the floor is slack for a slower or
    # busier machine (a time-out is "undecided", which must not happen on an unchanged tree just because of load)
    timeout = extra_timeout or max(1200, max(int(o["timeout"]) for o in obs))
    cmd = ["cargo", "kani", "-p", pkg_name(crate), "-Z", "function-contracts", "--no-assert-contracts", "--no-assertion-reach-checks", "-Z", "stubbing", "-Z", "unstable-options",
           "--harness-timeout", str(timeout), "-j", str(max(1, jobs)), "--output-format=terse",
           "--target-dir", str(tdir)]
    if cfgd.get("features"):
        cmd += ["--features", cfgd["features"]]
    if cfgd.get("no_default_features"):
        cmd += ["--no-default-features"]
    if solver_override:
        cmd += ["--solver", solver_override]
    for o in obs:
        cmd += ["--harness", o["name"], "--exact"] if False else ["--harness", o["name"]]
    env = dict(os.environ)
    env["CARGO_NET_OFFLINE"] = "true"
    rf = cfgd.get("rustflags", "")
    if rf:
        env["RUSTFLAGS"] = (env.get("RUSTFLAGS", "") + " " + rf).strip()
    t0 = time.time()
    hard = timeout * (1 + (len(obs) + max(1, jobs) - 1) // max(1, jobs)) + 600
    if True:
        out, rc = run_in_group(cmd, scratch.src, env, hard)
    wall = time.time() - t0
    if os.environ.get("VP_LOGDIR"):
        os.makedirs(os.environ["VP_LOGDIR"], exist_ok=True)
        Path(os.environ["VP_LOGDIR"], f"kani-{crate}-{cfg}{tag}-{int(t0)}.log").write_text(" ".join(cmd) + "\n" + out)
    parsed = parse_kani_output(out)
    results = {}
    compile_error = None
    if "error: could not compile" in out or "Failed to execute cargo" in out or re.search(r"^error(\[E\d+\])?:", out, re.M) and not parsed:
        errs = re.findall(r"^(error(?:\[E\d+\])?: .*(?:\n\s+-->.*)?)", out, re.M)
        compile_error = "\n".join(errs[:8]) or out[-2000:]
    for o in obs:
        hit = None
        for h, r in parsed.items():
            if h == o["name"] or h.endswith("::" + o["name"]):
                hit = r
        if hit is None:
            hit = dict(status="error", checks=0, failed=0, covers=None, failed_checks=[], time=None,
                       raw=(compile_error or "harness not found in Kani output (rc=%s)\n%s" % (rc, out[-1500:])))
            if compile_error:
                hit["status"] = "compile_error"
        results[o["id"]] = hit
    return results, wall, " ".join(shlex.quote(c) for c in cmd), out


def kani_playback(scratch, crate, cfg, ob, allmods):
    """Re-run one failed harness with concrete playback, then run the generated test natively.
    Returns dict(test=<source>, native=<output>, reproduced=bool) or None."""
    cfgd = {}
    for m in allmods:
        if m.crate == crate and cfg in m.configs:
            cfgd = m.configs[cfg]
    tdir = scratch.root / f"target-{crate}-{cfg}-pb"
    base = ["-p", pkg_name(crate)]
    if cfgd.get("features"):
        base += ["--features", cfgd["features"]]
    env = dict(os.environ)
    env["CARGO_NET_OFFLINE"] = "true"
    rf = cfgd.get("rustflags", "")
    if rf:
        env["RUSTFLAGS"] = (env.get("RUSTFLAGS", "") + " " + rf).strip()
    cmd = ["cargo", "kani"] + base + ["-Z", "function-contracts", "--no-assert-contracts", "--no-assertion-reach-checks", "-Z", "stubbing", "-Z", "unstable-options", "-Z", "concrete-playback",
           "--concrete-playback=inplace", "--harness-timeout", str(min(int(ob["timeout"]) * 2, 900)), "--harness", ob["name"],
           "--target-dir", str(tdir)]
    if ob.get("solver"):
        pass
    try:
        p = subprocess.run(cmd, cwd=scratch.src, env=env, text=True, capture_output=True, timeout=min(int(ob["timeout"]) * 2, 900) + 300, preexec_fn=_limits)
    except subprocess.TimeoutExpired:
        return None
    out = p.stdout + p.stderr
    # find generated test in the copied module file
    mfile = (scratch.src / ob["module"].file).parent / f"{ob['module'].name}.rs"
    txt = mfile.read_text()
    m = re.search(r"(#\[test\]\s*fn (kani_concrete_playback_\w+)\(\)[\s\S]*?\n\}\n)", txt)
    if not m:
        return dict(test=None, native=None, reproduced=False, kani_out=out[-4000:])
    test_src, test_name = m.group(1), m.group(2)
    cmd2 = ["cargo", "kani", "playback"] + base + ["-Z", "concrete-playback", "--", test_name]
    env = dict(env); env["CARGO_TARGET_DIR"] = str(tdir)
    try:
        p2 = subprocess.run(cmd2, cwd=scratch.src, env=env, text=True, capture_output=True, timeout=900)
        nout = p2.stdout + p2.stderr
        reproduced = bool(re.search(r"test \S*" + re.escape(test_name) + r" \.\.\. FAILED", nout)) or ("panicked at" in nout)
        passed = bool(re.search(r"test \S*" + re.escape(test_name) + r" \.\.\. ok", nout)) and not reproduced
    except subprocess.TimeoutExpired:
        nout, reproduced, passed = "native replay timed out", False, False
    keep = [l for l in nout.split("\n") if re.search(r"^test |panicked|assertion|test result|^error", l)]
    return dict(test=test_src, test_name=test_name, native="\n".join(keep[-60:]) or nout[-3000:], reproduced=reproduced, passed_natively=passed, kani_out=out[-4000:])
