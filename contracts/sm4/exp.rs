// experiments (temporary)
// @module file=sm4/src/lib.rs
use super::*;
use super::__vp_cipher::{any_sm4, eq32, eq_bytes16, enc, dec};
use cipher::{Array, KeyInit};

pub mod ufa {
    pub const MAXC: usize = 64;
    pub static mut IN: [u32; MAXC] = [0; MAXC];
    pub static mut OUT: [u32; MAXC] = [0; MAXC];
    pub static mut N: usize = 0;
    #[allow(static_mut_refs)]
    pub fn f(x: u32) -> u32 {
        unsafe {
            let y: u32 = kani::any();
            let mut i = 0;
            while i < N {
                kani::assume(IN[i] != x || OUT[i] == y);
                i += 1;
            }
            assert!(N < MAXC);
            IN[N] = x;
            OUT[N] = y;
            N += 1;
            y
        }
    }
}
// @ob name=e_enc_ufa props=C06 fn=x timeout=400
#[kani::proof]
#[kani::stub(t, ufa::f)]
#[kani::stub(bcref::sm4::t, ufa::f)]
#[kani::unwind(65)]
fn e_enc_ufa() {
    let c = any_sm4();
    let b: [u8; 16] = kani::any();
    assert!(eq_bytes16(&enc(&c, b), &bcref::sm4::encrypt_with(&c.rk, &b)));
}
// @ob name=e_enc_ufa_z3 props=C06 fn=x timeout=400
#[kani::proof]
#[kani::solver(z3)]
#[kani::stub(t, ufa::f)]
#[kani::stub(bcref::sm4::t, ufa::f)]
#[kani::unwind(65)]
fn e_enc_ufa_z3() {
    let c = any_sm4();
    let b: [u8; 16] = kani::any();
    assert!(eq_bytes16(&enc(&c, b), &bcref::sm4::encrypt_with(&c.rk, &b)));
}
// @ob name=e_enc_spec_z3 props=C06 fn=x timeout=400
#[kani::proof]
#[kani::solver(z3)]
#[kani::stub(t, bcref::sm4::t)]
#[kani::unwind(65)]
fn e_enc_spec_z3() {
    let c = any_sm4();
    let b: [u8; 16] = kani::any();
    assert!(eq_bytes16(&enc(&c, b), &bcref::sm4::encrypt_with(&c.rk, &b)));
}
// @ob name=e_enc_mono_z3 props=C06 fn=x timeout=400
#[kani::proof]
#[kani::solver(z3)]
#[kani::unwind(65)]
fn e_enc_mono_z3() {
    let c = any_sm4();
    let b: [u8; 16] = kani::any();
    assert!(eq_bytes16(&enc(&c, b), &bcref::sm4::encrypt_with(&c.rk, &b)));
}
// @ob name=e_rt_ufa props=C06 fn=x timeout=400
#[kani::proof]
#[kani::stub(t, ufa::f)]
#[kani::unwind(65)]
fn e_rt_ufa() {
    let c = any_sm4();
    let b: [u8; 16] = kani::any();
    assert!(eq_bytes16(&dec(&c, enc(&c, b)), &b));
}
// @ob name=e_rt_ufa_z3 props=C06 fn=x timeout=400
#[kani::proof]
#[kani::solver(z3)]
#[kani::stub(t, ufa::f)]
#[kani::unwind(65)]
fn e_rt_ufa_z3() {
    let c = any_sm4();
    let b: [u8; 16] = kani::any();
    assert!(eq_bytes16(&dec(&c, enc(&c, b)), &b));
}
// word-level comparison instead of bytes
// @ob name=e_enc_ufa_words props=C06 fn=x timeout=400
#[kani::proof]
#[kani::stub(t, ufa::f)]
#[kani::stub(bcref::sm4::t, ufa::f)]
#[kani::unwind(65)]
fn e_enc_ufa_words() {
    let c = any_sm4();
    let b: [u8; 16] = kani::any();
    let r = bcref::sm4::words_of(&enc(&c, b));
    let e = bcref::sm4::encrypt_words(&c.rk, &bcref::sm4::words_of(&b));
    assert!(r[0] == e[0] && r[1] == e[1] && r[2] == e[2] && r[3] == e[3]);
}
// @ob name=e_rt_mono_z3 props=C06 fn=x timeout=400
#[kani::proof]
#[kani::solver(z3)]
#[kani::unwind(65)]
fn e_rt_mono_z3() {
    let c = any_sm4();
    let b: [u8; 16] = kani::any();
    assert!(eq_bytes16(&dec(&c, enc(&c, b)), &b));
}
