// Contracts on xtea/src/lib.rs (the whole crate: one type, `Xtea`) against bcref::xtea
// (Needham & Wheeler, "Tea extensions", routine tean with 32 cycles; little-endian words per property C09).
//
// The real code has no helper functions: the 4 x 8 cycles are inline in `encrypt_block` / `decrypt_block`.
// Conformance is therefore stated on the block functions themselves, for EVERY value of the four key words
// (`Xtea { k: any }`), and the round trip is proved over those contracts: the block functions are replaced by
// their spec functions (bcref), and inside the spec the cycle / uncycle pair is replaced by an uninterpreted
// inverse pair licensed by the one-cycle lemma.
//
// @module file=xtea/src/lib.rs
// @config name=zeroize features=zeroize
use super::*;
use cipher::{Array, KeyInit};
include!("@VERIF@/contracts/_common/common.rs");
include!("@VERIF@/contracts/cast5/group_macros.rs");

pub fn any_xtea() -> Xtea { Xtea { k: kani::any() } }
fn snap(x: &Xtea) -> [u32; 4] { x.k }
fn eq4(a: &[u32; 4], b: &[u32; 4]) -> bool { a[0] == b[0] && a[1] == b[1] && a[2] == b[2] && a[3] == b[3] }
fn same(a: &Xtea, b: &Xtea) -> bool { eq4(&a.k, &b.k) }

fn words(b: &[u8; 8]) -> [u32; 2] { [bcref::xtea::le32(b, 0), bcref::xtea::le32(b, 4)] }
fn bytes(v: [u32; 2]) -> [u8; 8] {
    let (a, b) = (v[0].to_le_bytes(), v[1].to_le_bytes());
    [a[0], a[1], a[2], a[3], b[0], b[1], b[2], b[3]]
}

/// contracts of the two block functions as spec functions (the state is the four key words)
pub fn spec_enc_block(x: &Xtea, mut block: InOut<'_, '_, Block<Xtea>>) {
    let b = block.get_in().0;
    *block.get_out() = Array(bytes(bcref::xtea::encrypt_words(words(&b), &x.k)));
}
pub fn spec_dec_block(x: &Xtea, mut block: InOut<'_, '_, Block<Xtea>>) {
    let b = block.get_in().0;
    *block.get_out() = Array(bytes(bcref::xtea::decrypt_words(words(&b), &x.k)));
}

// ---------------------------------------------------------------- C09 conformance, C20
// (cadical: 110-170 s; z3 did not finish in 20 min on this formulation)
// @ob name=c_xtea_enc_state props=C09,C20 fn=xtea::Xtea::encrypt_block timeout=900
#[kani::proof]
#[kani::unwind(34)]
fn c_xtea_enc_state() {
    let x = any_xtea();
    let b: [u8; 8] = kani::any();
    let mut blk = Array(b);
    cipher::BlockCipherEncrypt::encrypt_block(&x, &mut blk);
    let r = bcref::xtea::encrypt_words(words(&b), &x.k);
    assert!(words(&blk.0)[0] == r[0] && words(&blk.0)[1] == r[1]);
}

// @ob name=c_xtea_dec_state props=C09,C20 fn=xtea::Xtea::decrypt_block timeout=900
#[kani::proof]
#[kani::unwind(34)]
fn c_xtea_dec_state() {
    let x = any_xtea();
    let b: [u8; 8] = kani::any();
    let mut blk = Array(b);
    cipher::BlockCipherDecrypt::decrypt_block(&x, &mut blk);
    let r = bcref::xtea::decrypt_words(words(&b), &x.k);
    assert!(words(&blk.0)[0] == r[0] && words(&blk.0)[1] == r[1]);
}

// Key loading: the state is the key read as four little-endian words, through all three constructors.
// @ob name=c_xtea_new props=C09,C11,C20 fn=xtea::Xtea::new,xtea::Xtea::new_from_slice timeout=300
#[kani::proof]
#[kani::unwind(20)]
fn c_xtea_new() {
    let k: [u8; 16] = kani::any();
    let w = bcref::xtea::key_words_le(&k);
    assert!(eq4(&Xtea::new(&Array(k)).k, &w));
    assert!(eq4(&Xtea::new_from_slice(&k[..]).unwrap().k, &w));
}

/// uninterpreted pair (direction, words, key words) -> words standing for bcref::xtea::{encrypt,decrypt}_words
pub mod ufw {
    pub const MAXC: usize = 6;
    pub static mut D: [bool; MAXC] = [false; MAXC];
    pub static mut V: [[u32; 2]; MAXC] = [[0; 2]; MAXC];
    pub static mut K: [[u32; 4]; MAXC] = [[0; 4]; MAXC];
    pub static mut R: [[u32; 2]; MAXC] = [[0; 2]; MAXC];
    pub static mut N: usize = 0;
    #[allow(static_mut_refs)]
    fn block(dec: bool, v: [u32; 2], k: &[u32; 4]) -> [u32; 2] {
        unsafe {
            let mut r: [u32; 2] = kani::any();
            let mut found = false;
            let mut c = 0;
            while c < N {
                let eq = D[c] == dec && V[c][0] == v[0] && V[c][1] == v[1] && super::eq4(&K[c], k);
                if !found && eq { r = R[c]; found = true; }
                c += 1;
            }
            assert!(N < MAXC);
            D[N] = dec; V[N] = v; K[N] = *k; R[N] = r; N += 1;
            r
        }
    }
    pub fn enc(v: [u32; 2], k: &[u32; 4]) -> [u32; 2] { block(false, v, k) }
    pub fn dec(v: [u32; 2], k: &[u32; 4]) -> [u32; 2] { block(true, v, k) }
}

// Public API on bytes: new + encrypt_block / decrypt_block == 32-cycle XTEA over little-endian words.
// The block functions are replaced by their contracts (c_xtea_enc_state / c_xtea_dec_state); what remains is the
// byte <-> word plumbing of key and block, so the word-level reference routines are uninterpreted here.
// @ob name=c_xtea_bytes_api props=C09,C20 fn=xtea::Xtea::new,xtea::Xtea::encrypt_block,xtea::Xtea::decrypt_block
//     uses=c_xtea_enc_state,c_xtea_dec_state timeout=300
#[kani::proof]
#[kani::stub(<Xtea as BlockCipherEncBackend>::encrypt_block, spec_enc_block)]
#[kani::stub(<Xtea as BlockCipherDecBackend>::decrypt_block, spec_dec_block)]
#[kani::stub(bcref::xtea::encrypt_words, ufw::enc)]
#[kani::stub(bcref::xtea::decrypt_words, ufw::dec)]
#[kani::unwind(34)]
fn c_xtea_bytes_api() {
    let k: [u8; 16] = kani::any();
    let b: [u8; 8] = kani::any();
    let x = Xtea::new(&Array(k));
    let mut blk = Array(b);
    cipher::BlockCipherEncrypt::encrypt_block(&x, &mut blk);
    assert!(blk.0 == bcref::xtea::encrypt_le(&k, &b));
    let mut blk = Array(b);
    cipher::BlockCipherDecrypt::decrypt_block(&x, &mut blk);
    assert!(blk.0 == bcref::xtea::decrypt_le(&k, &b));
}

// The same with nothing replaced (real key loading and real 32 cycles against the reference), both directions.
// (not run to completion in the contributing session: not registered)
// @candidate name=c_xtea_mono_api props=C09 tier=thorough fn=xtea::Xtea::new,xtea::Xtea::encrypt_block,xtea::Xtea::decrypt_block timeout=1800
#[kani::proof]
#[kani::unwind(34)]
fn c_xtea_mono_api() {
    let k: [u8; 16] = kani::any();
    let b: [u8; 8] = kani::any();
    let x = Xtea::new(&Array(k));
    let mut blk = Array(b);
    cipher::BlockCipherEncrypt::encrypt_block(&x, &mut blk);
    let e = bcref::xtea::encrypt_le(&k, &b);
    assert!(u64::from_le_bytes(blk.0) == u64::from_le_bytes(e));
    let mut blk = Array(b);
    cipher::BlockCipherDecrypt::decrypt_block(&x, &mut blk);
    let d = bcref::xtea::decrypt_le(&k, &b);
    assert!(u64::from_le_bytes(blk.0) == u64::from_le_bytes(d));
}

// ---------------------------------------------------------------- C01 round trip
// One cycle of the reference and its inverse, for every (y, z, sum, key): both orders.
// @ob name=l_xtea_cycle_inverse props=C01 kind=lemma fn=xtea::Xtea::encrypt_block,xtea::Xtea::decrypt_block timeout=300
#[kani::proof]
fn l_xtea_cycle_inverse() {
    let (y, z, s): (u32, u32, u32) = (kani::any(), kani::any(), kani::any());
    let k: [u32; 4] = kani::any();
    let c = bcref::xtea::cycle(y, z, s, &k);
    assert!(c.2 == s.wrapping_add(bcref::xtea::DELTA));
    let u = bcref::xtea::uncycle(c.0, c.1, c.2, &k);
    assert!(u.0 == y && u.1 == z && u.2 == s);
    let u = bcref::xtea::uncycle(y, z, s, &k);
    assert!(u.2 == s.wrapping_sub(bcref::xtea::DELTA));
    let c = bcref::xtea::cycle(u.0, u.1, u.2, &k);
    assert!(c.0 == y && c.1 == z && c.2 == s);
}

/// Uninterpreted inverse pair standing for (cycle, uncycle) of the reference: for every key and sum,
/// cyc(., ., sum, k) is a bijection on (y, z) whose inverse is uncyc(., ., sum + DELTA, k); the sum component is
/// the concrete one.  Licensed by l_xtea_cycle_inverse.
/// The relation table is organised in 32 slots by the (concrete) value of sum = n * DELTA, so a call only looks
/// at the rows of its own cycle number (rows of different sums are unrelated: each sum has its own bijection).
pub mod ufc {
    pub const SLOTS: usize = 32;
    pub const PER: usize = 4;
    // relation rows of slot n: (y, z, key) <-> (y', z')
    pub static mut A: [[(u32, u32); PER]; SLOTS] = [[(0, 0); PER]; SLOTS];
    pub static mut B: [[(u32, u32); PER]; SLOTS] = [[(0, 0); PER]; SLOTS];
    pub static mut K: [[[u32; 4]; PER]; SLOTS] = [[[0; 4]; PER]; SLOTS];
    pub static mut CNT: [usize; SLOTS] = [0; SLOTS];
    fn keq(a: &[u32; 4], b: &[u32; 4]) -> bool { a[0] == b[0] && a[1] == b[1] && a[2] == b[2] && a[3] == b[3] }
    /// cycle number of a sum-before-the-cycle value (the only values the 32-cycle routines produce)
    fn slot(sum: u32) -> usize {
        let mut n = 0;
        let mut hit = SLOTS;
        while n < SLOTS {
            if sum == bcref::xtea::DELTA.wrapping_mul(n as u32) { hit = n; }
            n += 1;
        }
        assert!(hit < SLOTS);
        hit
    }
    #[allow(static_mut_refs)]
    pub fn cyc(y: u32, z: u32, sum: u32, k: &[u32; 4]) -> (u32, u32, u32) {
        unsafe {
            let n = slot(sum);
            let mut r: (u32, u32) = (kani::any(), kani::any());
            let mut found = false;
            let mut i = 0;
            while i < CNT[n] {
                if !found && keq(&K[n][i], k) && A[n][i].0 == y && A[n][i].1 == z { r = B[n][i]; found = true; }
                i += 1;
            }
            if !found {
                let mut i = 0;
                while i < CNT[n] {
                    if keq(&K[n][i], k) { kani::assume(B[n][i].0 != r.0 || B[n][i].1 != r.1); }
                    i += 1;
                }
            }
            assert!(CNT[n] < PER);
            A[n][CNT[n]] = (y, z); B[n][CNT[n]] = r; K[n][CNT[n]] = *k; CNT[n] += 1;
            (r.0, r.1, sum.wrapping_add(bcref::xtea::DELTA))
        }
    }
    #[allow(static_mut_refs)]
    pub fn uncyc(y: u32, z: u32, sum: u32, k: &[u32; 4]) -> (u32, u32, u32) {
        unsafe {
            let s0 = sum.wrapping_sub(bcref::xtea::DELTA);
            let n = slot(s0);
            let mut r: (u32, u32) = (kani::any(), kani::any());
            let mut found = false;
            let mut i = 0;
            while i < CNT[n] {
                if !found && keq(&K[n][i], k) && B[n][i].0 == y && B[n][i].1 == z { r = A[n][i]; found = true; }
                i += 1;
            }
            if !found {
                let mut i = 0;
                while i < CNT[n] {
                    if keq(&K[n][i], k) { kani::assume(A[n][i].0 != r.0 || A[n][i].1 != r.1); }
                    i += 1;
                }
            }
            assert!(CNT[n] < PER);
            A[n][CNT[n]] = r; B[n][CNT[n]] = (y, z); K[n][CNT[n]] = *k; CNT[n] += 1;
            (r.0, r.1, s0)
        }
    }
}

// C01 on the public block calls, both orders, for every state: block functions replaced by their contracts,
// the reference's cycle pair by the uninterpreted inverse pair.
// @ob name=l_xtea_roundtrip props=C01 kind=lemma fn=xtea::Xtea::encrypt_block,xtea::Xtea::decrypt_block
//     uses=c_xtea_enc_state,c_xtea_dec_state,l_xtea_cycle_inverse timeout=600
#[kani::proof]
#[kani::stub(<Xtea as BlockCipherEncBackend>::encrypt_block, spec_enc_block)]
#[kani::stub(<Xtea as BlockCipherDecBackend>::decrypt_block, spec_dec_block)]
#[kani::stub(bcref::xtea::cycle, ufc::cyc)]
#[kani::stub(bcref::xtea::uncycle, ufc::uncyc)]
#[kani::unwind(34)]
fn l_xtea_roundtrip() {
    let x = any_xtea();
    let b: [u8; 8] = kani::any();
    let mut blk = Array(b);
    cipher::BlockCipherEncrypt::encrypt_block(&x, &mut blk);
    cipher::BlockCipherDecrypt::decrypt_block(&x, &mut blk);
    assert!(blk.0 == b);
    cipher::BlockCipherDecrypt::decrypt_block(&x, &mut blk);
    cipher::BlockCipherEncrypt::encrypt_block(&x, &mut blk);
    assert!(blk.0 == b);
}

// The same on the real code with nothing replaced (measured in the design round: ~770 s cadical).
// (not run to completion in the contributing session: not registered)
// @candidate name=l_xtea_mono_roundtrip props=C01 kind=lemma tier=thorough fn=xtea::Xtea::encrypt_block,xtea::Xtea::decrypt_block timeout=3000
#[kani::proof]
#[kani::unwind(34)]
fn l_xtea_mono_roundtrip() {
    let x = any_xtea();
    let b: [u8; 8] = kani::any();
    let mut blk = Array(b);
    cipher::BlockCipherEncrypt::encrypt_block(&x, &mut blk);
    cipher::BlockCipherDecrypt::decrypt_block(&x, &mut blk);
    assert!(u64::from_le_bytes(blk.0) == u64::from_le_bytes(b));
}

// ---------------------------------------------------------------- C11 key lengths, C13 weak keys
// @ob name=k_xtea_len props=C11 kind=bounded bound="slice length <= 300" fn=xtea::Xtea::new_from_slice timeout=300
keylen!(#[kani::unwind(20)] k_xtea_len, Xtea, |n| n == 16, 16, 16);

// @ob name=w_xtea_never_weak props=C13 fn=xtea::Xtea::weak_key_test,xtea::Xtea::new_checked timeout=300
never_weak!(#[kani::unwind(20)] w_xtea_never_weak, Xtea, 16, same);

// ---------------------------------------------------------------- C19 Debug / AlgorithmName
// ("XTEA { ... }" / "XTEA": the type is `Xtea`; names are compared ASCII case-insensitively)
// @ob name=n_xtea_names props=C19 fn=xtea::Xtea::fmt,xtea::Xtea::write_alg_name timeout=300
names!(n_xtea_names, Xtea, any_xtea(), "Xtea");

// ---------------------------------------------------------------- C16 zeroize on drop
// @ob name=z_xtea_any props=C16 cfg=zeroize fn=xtea::Xtea::drop timeout=300
zero_on_drop!(z_xtea_any, Xtea, any_xtea());
// @ob name=z_xtea_keyed props=C16 cfg=zeroize fn=xtea::Xtea::drop,xtea::Xtea::new timeout=300
zero_on_drop!(z_xtea_keyed, Xtea, Xtea::new(&Array(kani::any())));

// ---------------------------------------------------------------- C04 / C15 multi-block plumbing
// The block functions are abstracted to an uninterpreted function of the block (licensed by
// c_xtea_enc_state / c_xtea_dec_state: pure functions of (state, block)).
fn uf_block(_x: &Xtea, mut block: InOut<'_, '_, Block<Xtea>>) {
    let b = block.get_in().0;
    *block.get_out() = Array(uf::uf64(u64::from_le_bytes(b)).to_le_bytes());
}
// @ob name=m_xtea_enc_blocks_0 props=C04,C15 kind=bounded bound="n = 0 blocks" fn=xtea::Xtea::encrypt_with_backend uses=c_xtea_enc_state timeout=300
multi_block!(#[kani::stub(<Xtea as BlockCipherEncBackend>::encrypt_block, uf_block)] #[kani::unwind(30)]
    m_xtea_enc_blocks_0, 0, any_xtea(), snap, eq4, BlockCipherEncrypt, encrypt_block, encrypt_blocks, encrypt_blocks_b2b);
// @ob name=m_xtea_enc_blocks_1 props=C04,C15 kind=bounded bound="n = 1 block" fn=xtea::Xtea::encrypt_with_backend uses=c_xtea_enc_state timeout=300
multi_block!(#[kani::stub(<Xtea as BlockCipherEncBackend>::encrypt_block, uf_block)] #[kani::unwind(30)]
    m_xtea_enc_blocks_1, 1, any_xtea(), snap, eq4, BlockCipherEncrypt, encrypt_block, encrypt_blocks, encrypt_blocks_b2b);
// @ob name=m_xtea_enc_blocks_3 props=C04,C15 kind=bounded bound="n = 3 blocks" fn=xtea::Xtea::encrypt_with_backend uses=c_xtea_enc_state timeout=300
multi_block!(#[kani::stub(<Xtea as BlockCipherEncBackend>::encrypt_block, uf_block)] #[kani::unwind(30)]
    m_xtea_enc_blocks_3, 3, any_xtea(), snap, eq4, BlockCipherEncrypt, encrypt_block, encrypt_blocks, encrypt_blocks_b2b);
// @ob name=m_xtea_dec_blocks_0 props=C04,C15 kind=bounded bound="n = 0 blocks" fn=xtea::Xtea::decrypt_with_backend uses=c_xtea_dec_state timeout=300
multi_block!(#[kani::stub(<Xtea as BlockCipherDecBackend>::decrypt_block, uf_block)] #[kani::unwind(30)]
    m_xtea_dec_blocks_0, 0, any_xtea(), snap, eq4, BlockCipherDecrypt, decrypt_block, decrypt_blocks, decrypt_blocks_b2b);
// @ob name=m_xtea_dec_blocks_1 props=C04,C15 kind=bounded bound="n = 1 block" fn=xtea::Xtea::decrypt_with_backend uses=c_xtea_dec_state timeout=300
multi_block!(#[kani::stub(<Xtea as BlockCipherDecBackend>::decrypt_block, uf_block)] #[kani::unwind(30)]
    m_xtea_dec_blocks_1, 1, any_xtea(), snap, eq4, BlockCipherDecrypt, decrypt_block, decrypt_blocks, decrypt_blocks_b2b);
// @ob name=m_xtea_dec_blocks_3 props=C04,C15 kind=bounded bound="n = 3 blocks" fn=xtea::Xtea::decrypt_with_backend uses=c_xtea_dec_state timeout=300
multi_block!(#[kani::stub(<Xtea as BlockCipherDecBackend>::decrypt_block, uf_block)] #[kani::unwind(30)]
    m_xtea_dec_blocks_3, 3, any_xtea(), snap, eq4, BlockCipherDecrypt, decrypt_block, decrypt_blocks, decrypt_blocks_b2b);
