//! Speck2n/mn after Beaulieu, Shors, Smith, Treatman-Clark, Weeks, Wingers, "The Simon and Speck Families of
//! Lightweight Block Ciphers" (IACR ePrint 2013/404): section 4.1 (round function), 4.2 (key schedules),
//! Table 4.1 (parameters), Appendix C (test vectors).
//!
//! One implementation for all word sizes n in {16, 24, 32, 48, 64}: n-bit words carried in `u64`, every
//! operation reduced mod 2^n.  The specification is on words; a block is (x, y) and a key is
//! (l_{m-2}, ..., l_0, k_0), written in that order in Appendix C.  On bytes this module reads the printed hex
//! strings from left to right, i.e. each word big-endian, words in the printed order (the byte convention of
//! /repo/speck and of its test file; the paper itself fixes no byte order).

#[derive(Clone, Copy, PartialEq, Eq, Debug)]
pub struct Params {
    /// word size n
    pub n: u32,
    /// key words m
    pub m: usize,
    /// rounds T
    pub t: usize,
}
/// Table 4.1: block size 2n, key size mn, rot alpha, rot beta, rounds T
pub const SPECK32_64: Params = Params { n: 16, m: 4, t: 22 };
pub const SPECK48_72: Params = Params { n: 24, m: 3, t: 22 };
pub const SPECK48_96: Params = Params { n: 24, m: 4, t: 23 };
pub const SPECK64_96: Params = Params { n: 32, m: 3, t: 26 };
pub const SPECK64_128: Params = Params { n: 32, m: 4, t: 27 };
pub const SPECK96_96: Params = Params { n: 48, m: 2, t: 28 };
pub const SPECK96_144: Params = Params { n: 48, m: 3, t: 29 };
pub const SPECK128_128: Params = Params { n: 64, m: 2, t: 32 };
pub const SPECK128_192: Params = Params { n: 64, m: 3, t: 33 };
pub const SPECK128_256: Params = Params { n: 64, m: 4, t: 34 };

/// "alpha = 7 and beta = 2 if n = 16 (block size 32) and alpha = 8 and beta = 3 otherwise"
pub const fn alpha(n: u32) -> u32 { if n == 16 { 7 } else { 8 } }
pub const fn beta(n: u32) -> u32 { if n == 16 { 2 } else { 3 } }

pub const fn mask(n: u32) -> u64 { if n >= 64 { u64::MAX } else { (1u64 << n) - 1 } }
/// S^j: left circular shift by j bits of an n-bit word (0 < j < n)
pub const fn rol(n: u32, x: u64, j: u32) -> u64 { (((x & mask(n)) << j) | ((x & mask(n)) >> (n - j))) & mask(n) }
/// S^-j
pub const fn ror(n: u32, x: u64, j: u32) -> u64 { (((x & mask(n)) >> j) | ((x & mask(n)) << (n - j))) & mask(n) }
pub const fn add(n: u32, a: u64, b: u64) -> u64 { a.wrapping_add(b) & mask(n) }
pub const fn sub(n: u32, a: u64, b: u64) -> u64 { a.wrapping_sub(b) & mask(n) }

/// 4.1: R_k(x, y) = ((S^-alpha x + y) xor k, S^beta y xor (S^-alpha x + y) xor k)
pub const fn round(n: u32, k: u64, x: u64, y: u64) -> (u64, u64) {
    let nx = add(n, ror(n, x, alpha(n)), y) ^ (k & mask(n));
    (nx, rol(n, y, beta(n)) ^ nx)
}
/// 4.1: R_k^-1(x, y) = (S^alpha((x xor k) - S^-beta(x xor y)), S^-beta(x xor y))
pub const fn inv_round(n: u32, k: u64, x: u64, y: u64) -> (u64, u64) {
    let ny = ror(n, x ^ y, beta(n));
    (rol(n, sub(n, (x ^ k) & mask(n), ny), alpha(n)), ny)
}

/// 4.2: K = (l_{m-2}, ..., l_0, k_0) (the order of `key`);
/// l_{i+m-1} = (k_i + S^-alpha l_i) xor i,  k_{i+1} = S^beta k_i xor l_{i+m-1};  round key i is k_i, 0 <= i < T
pub fn key_schedule<const M: usize, const T: usize>(n: u32, key: &[u64; M]) -> [u64; T] {
    assert!(M >= 2 && M <= 4);
    let mut k = [0u64; T];
    // l has T + m - 2 entries; 34 + 4 - 2 = 36 is the largest
    let mut l = [0u64; 36];
    k[0] = key[M - 1] & mask(n);
    let mut i = 0;
    while i < M - 1 {
        l[i] = key[M - 2 - i] & mask(n);
        i += 1;
    }
    let mut i = 0;
    while i < T - 1 {
        l[i + M - 1] = add(n, k[i], ror(n, l[i], alpha(n))) ^ (i as u64);
        k[i + 1] = rol(n, k[i], beta(n)) ^ l[i + M - 1];
        i += 1;
    }
    k
}

pub fn encrypt_with<const T: usize>(n: u32, rk: &[u64; T], x: u64, y: u64) -> (u64, u64) {
    let (mut x, mut y) = (x & mask(n), y & mask(n));
    let mut i = 0;
    while i < T {
        (x, y) = round(n, rk[i], x, y);
        i += 1;
    }
    (x, y)
}
pub fn decrypt_with<const T: usize>(n: u32, rk: &[u64; T], x: u64, y: u64) -> (u64, u64) {
    let (mut x, mut y) = (x & mask(n), y & mask(n));
    let mut i = T;
    while i > 0 {
        i -= 1;
        (x, y) = inv_round(n, rk[i], x, y);
    }
    (x, y)
}

/// big-endian n-bit word
pub fn word_be(n: u32, b: &[u8]) -> u64 {
    let mut x = 0u64;
    let mut i = 0;
    while i < (n / 8) as usize {
        x = (x << 8) | b[i] as u64;
        i += 1;
    }
    x
}
pub fn put_word_be(n: u32, x: u64, b: &mut [u8]) {
    let u = (n / 8) as usize;
    let mut i = 0;
    while i < u {
        b[i] = (x >> (8 * (u - 1 - i))) as u8;
        i += 1;
    }
}
/// key bytes (printed order, words big-endian) to key words (l_{m-2}, ..., l_0, k_0)
pub fn key_words<const M: usize>(n: u32, key: &[u8]) -> [u64; M] {
    let u = (n / 8) as usize;
    let mut w = [0u64; M];
    let mut i = 0;
    while i < M {
        w[i] = word_be(n, &key[i * u..(i + 1) * u]);
        i += 1;
    }
    w
}
pub fn encrypt<const M: usize, const T: usize>(n: u32, key: &[u8], block: &mut [u8]) {
    let u = (n / 8) as usize;
    let rk = key_schedule::<M, T>(n, &key_words::<M>(n, key));
    let (x, y) = encrypt_with::<T>(n, &rk, word_be(n, &block[..u]), word_be(n, &block[u..2 * u]));
    put_word_be(n, x, &mut block[..u]);
    put_word_be(n, y, &mut block[u..2 * u]);
}
pub fn decrypt<const M: usize, const T: usize>(n: u32, key: &[u8], block: &mut [u8]) {
    let u = (n / 8) as usize;
    let rk = key_schedule::<M, T>(n, &key_words::<M>(n, key));
    let (x, y) = decrypt_with::<T>(n, &rk, word_be(n, &block[..u]), word_be(n, &block[u..2 * u]));
    put_word_be(n, x, &mut block[..u]);
    put_word_be(n, y, &mut block[u..2 * u]);
}

#[cfg(test)]
mod tests {
    use super::*;

    fn check<const M: usize, const T: usize>(p: Params, key: [u64; M], pt: (u64, u64), ct: (u64, u64)) {
        assert_eq!((p.m, p.t), (M, T));
        let rk = key_schedule::<M, T>(p.n, &key);
        assert_eq!(encrypt_with::<T>(p.n, &rk, pt.0, pt.1), ct);
        assert_eq!(decrypt_with::<T>(p.n, &rk, ct.0, ct.1), pt);
        // and through the byte interface
        let u = (p.n / 8) as usize;
        let mut kb = [0u8; 32];
        for i in 0..M { put_word_be(p.n, key[i], &mut kb[i * u..(i + 1) * u]); }
        let mut blk = [0u8; 16];
        put_word_be(p.n, pt.0, &mut blk[..u]);
        put_word_be(p.n, pt.1, &mut blk[u..2 * u]);
        encrypt::<M, T>(p.n, &kb[..M * u], &mut blk[..2 * u]);
        assert_eq!((word_be(p.n, &blk[..u]), word_be(p.n, &blk[u..2 * u])), ct);
        decrypt::<M, T>(p.n, &kb[..M * u], &mut blk[..2 * u]);
        assert_eq!((word_be(p.n, &blk[..u]), word_be(p.n, &blk[u..2 * u])), pt);
    }

    /// Appendix C, "Speck test vectors", as printed (Key / Plaintext / Ciphertext words)
    #[test]
    fn appendix_c() {
        check::<4, 22>(SPECK32_64, [0x1918, 0x1110, 0x0908, 0x0100], (0x6574, 0x694c), (0xa868, 0x42f2));
        check::<3, 22>(SPECK48_72, [0x121110, 0x0a0908, 0x020100], (0x20796c, 0x6c6172), (0xc049a5, 0x385adc));
        check::<4, 23>(SPECK48_96, [0x1a1918, 0x121110, 0x0a0908, 0x020100], (0x6d2073, 0x696874), (0x735e10, 0xb6445d));
        check::<3, 26>(SPECK64_96, [0x13121110, 0x0b0a0908, 0x03020100], (0x74614620, 0x736e6165), (0x9f7952ec, 0x4175946c));
        check::<4, 27>(SPECK64_128, [0x1b1a1918, 0x13121110, 0x0b0a0908, 0x03020100], (0x3b726574, 0x7475432d), (0x8c6fa548, 0x454e028b));
        check::<2, 28>(SPECK96_96, [0x0d0c0b0a0908, 0x050403020100], (0x65776f68202c, 0x656761737520), (0x9e4d09ab7178, 0x62bdde8f79aa));
        check::<3, 29>(SPECK96_144, [0x151413121110, 0x0d0c0b0a0908, 0x050403020100], (0x656d6974206e, 0x69202c726576), (0x2bf31072228a, 0x7ae440252ee6));
        check::<2, 32>(SPECK128_128, [0x0f0e0d0c0b0a0908, 0x0706050403020100], (0x6c61766975716520, 0x7469206564616d20), (0xa65d985179783265, 0x7860fedf5c570d18));
        check::<3, 33>(SPECK128_192, [0x1716151413121110, 0x0f0e0d0c0b0a0908, 0x0706050403020100], (0x7261482066656968, 0x43206f7420746e65), (0x1be4cf3a13135566, 0xf9bc185de03c1886));
        check::<4, 34>(SPECK128_256, [0x1f1e1d1c1b1a1918, 0x1716151413121110, 0x0f0e0d0c0b0a0908, 0x0706050403020100], (0x65736f6874206e49, 0x202e72656e6f6f70), (0x4109010405c0f53e, 0x4eeeb48d9c188f43));
    }

    #[test]
    fn round_is_invertible_on_samples() {
        for n in [16u32, 24, 32, 48, 64] {
            let (x, y, k) = (0x0123456789abcdefu64 & mask(n), 0xfedcba9876543210u64 & mask(n), 0x5a5a5a5aa5a5a5a5u64);
            let (a, b) = round(n, k, x, y);
            assert_eq!(inv_round(n, k, a, b), (x, y));
        }
    }
}
