//! (reference for belt: to be written)
