// Contracts on kuznyechik/src/sse2/backends.rs (default build on x86-64): the SSE2 table-driven backend on __m128i.
// A block is the __m128i holding the 16 octets in printed order (byte lane k = octet k).  The SSE2 intrinsics are
// executed by Kani from their definitions in core::arch (portable-SIMD platform intrinsics), not modelled.
// Same decomposition as soft.rs: `transform` is proved for EVERY table (symbolic 64 KiB table parameter), the real
// tables' contents by fused_tables.*, linearity by lemmas.*; callers are proved against `spec_transform`.
//
// @module file=kuznyechik/src/sse2/backends.rs
use super::*;
use crate::__vp_lemmas::{spec_dec_dk, spec_inv_keys};
use crate::fused_tables::__vp_fused_tables::entry;
use bcref::kuznyechik as kz;

pub fn bytes(x: __m128i) -> [u8; 16] { unsafe { core::mem::transmute(x) } }
pub fn word(b: &[u8; 16]) -> __m128i { unsafe { core::mem::transmute(*b) } }
pub fn any_word() -> __m128i { word(&kani::any()) }
pub fn any_round_keys() -> RoundKeys {
    let raw: [[u8; 16]; 10] = kani::any();
    unsafe { core::mem::transmute(raw) }
}
pub fn raw_keys(k: &RoundKeys) -> [[u8; 16]; 10] { unsafe { core::mem::transmute(*k) } }

/// XOR_i T[i][b_i]
pub fn spec_transform_table(block: __m128i, t: &Table) -> [u8; 16] {
    let b = bytes(block);
    let mut acc = [0u8; 16];
    let mut i = 0;
    while i < 16 {
        acc = kz::xor(&acc, &entry(t, i, b[i]));
        i += 1;
    }
    acc
}

/// contract of `transform` on the two real tables
pub unsafe fn spec_transform(block: __m128i, table: &Table) -> __m128i {
    if core::ptr::eq(table, &ENC_TABLE) {
        word(&kz::l(&kz::s(&bytes(block))))
    } else {
        assert!(core::ptr::eq(table, &DEC_TABLE)); // no other table exists in the crate
        word(&kz::l_inv(&kz::s_inv(&bytes(block))))
    }
}

// @ob name=c_transform props=C07,C20 fn=kuznyechik::sse2::backends::transform timeout=900
#[kani::proof]
#[kani::unwind(17)]
fn c_transform() {
    let t: Table = crate::utils::Align16(kani::any());
    let b = any_word();
    let r = unsafe { transform(b, &t) };
    assert!(kz::eq(&bytes(r), &spec_transform_table(b, &t)));
}

// @ob name=c_sub_bytes props=C07,C20 fn=kuznyechik::sse2::backends::sub_bytes timeout=300
#[kani::proof]
#[kani::unwind(17)]
fn c_sub_bytes() {
    let b = any_word();
    assert!(kz::eq(&bytes(unsafe { sub_bytes(b, &P) }), &kz::s(&bytes(b))));
    assert!(kz::eq(&bytes(unsafe { sub_bytes(b, &P_INV) }), &kz::s_inv(&bytes(b))));
}
