//! RC2, written from RFC 2268 (R. Rivest, "A Description of the RC2(r) Encryption Algorithm", March 1998):
//! section 2 (key expansion), section 3 (encryption: mix, mash, mixing round, mashing round), section 4
//! (decryption: r-mix, r-mash), section 5 (test vectors).
//!
//! Notation of the RFC: the key buffer is L[0..127] (bytes) = K[0..63] (16-bit words, K[i] = L[2i] + 256 L[2i+1]);
//! T = number of key bytes supplied (1..128), T1 = effective key length in bits (1..1024),
//! T8 = ceil(T1 / 8), TM = 255 MOD 2^(8 + T1 - 8*T8).  The block is R[0..3], 16-bit words, little-endian bytes.

/// PITABLE of RFC 2268 section 2 ("a random permutation of 0..255 derived from the digits of pi"): cannot be
/// recomputed from a definition given in the RFC; snapshot of the pinned tree (/repo/rc2/src/consts.rs), the
/// first row reads d9 78 f9 c4 19 dd b5 ed 28 e9 fd 79 4a a0 d8 9d as printed in the RFC.
pub const PITABLE: [u8; 256] = [
    0xd9, 0x78, 0xf9, 0xc4, 0x19, 0xdd, 0xb5, 0xed, 0x28, 0xe9, 0xfd, 0x79, 0x4a, 0xa0, 0xd8, 0x9d,
    0xc6, 0x7e, 0x37, 0x83, 0x2b, 0x76, 0x53, 0x8e, 0x62, 0x4c, 0x64, 0x88, 0x44, 0x8b, 0xfb, 0xa2,
    0x17, 0x9a, 0x59, 0xf5, 0x87, 0xb3, 0x4f, 0x13, 0x61, 0x45, 0x6d, 0x8d, 0x09, 0x81, 0x7d, 0x32,
    0xbd, 0x8f, 0x40, 0xeb, 0x86, 0xb7, 0x7b, 0x0b, 0xf0, 0x95, 0x21, 0x22, 0x5c, 0x6b, 0x4e, 0x82,
    0x54, 0xd6, 0x65, 0x93, 0xce, 0x60, 0xb2, 0x1c, 0x73, 0x56, 0xc0, 0x14, 0xa7, 0x8c, 0xf1, 0xdc,
    0x12, 0x75, 0xca, 0x1f, 0x3b, 0xbe, 0xe4, 0xd1, 0x42, 0x3d, 0xd4, 0x30, 0xa3, 0x3c, 0xb6, 0x26,
    0x6f, 0xbf, 0x0e, 0xda, 0x46, 0x69, 0x07, 0x57, 0x27, 0xf2, 0x1d, 0x9b, 0xbc, 0x94, 0x43, 0x03,
    0xf8, 0x11, 0xc7, 0xf6, 0x90, 0xef, 0x3e, 0xe7, 0x06, 0xc3, 0xd5, 0x2f, 0xc8, 0x66, 0x1e, 0xd7,
    0x08, 0xe8, 0xea, 0xde, 0x80, 0x52, 0xee, 0xf7, 0x84, 0xaa, 0x72, 0xac, 0x35, 0x4d, 0x6a, 0x2a,
    0x96, 0x1a, 0xd2, 0x71, 0x5a, 0x15, 0x49, 0x74, 0x4b, 0x9f, 0xd0, 0x5e, 0x04, 0x18, 0xa4, 0xec,
    0xc2, 0xe0, 0x41, 0x6e, 0x0f, 0x51, 0xcb, 0xcc, 0x24, 0x91, 0xaf, 0x50, 0xa1, 0xf4, 0x70, 0x39,
    0x99, 0x7c, 0x3a, 0x85, 0x23, 0xb8, 0xb4, 0x7a, 0xfc, 0x02, 0x36, 0x5b, 0x25, 0x55, 0x97, 0x31,
    0x2d, 0x5d, 0xfa, 0x98, 0xe3, 0x8a, 0x92, 0xae, 0x05, 0xdf, 0x29, 0x10, 0x67, 0x6c, 0xba, 0xc9,
    0xd3, 0x00, 0xe6, 0xcf, 0xe1, 0x9e, 0xa8, 0x2c, 0x63, 0x16, 0x01, 0x3f, 0x58, 0xe2, 0x89, 0xa9,
    0x0d, 0x38, 0x34, 0x1b, 0xab, 0x33, 0xff, 0xb0, 0xbb, 0x48, 0x0c, 0x5f, 0xb9, 0xb1, 0xcd, 0x2e,
    0xc5, 0xf3, 0xdb, 0x47, 0xe5, 0xa5, 0x9c, 0x77, 0x0a, 0xa6, 0x20, 0x68, 0xfe, 0x7f, 0xc1, 0xad,
];

/// Key expansion (section 2) on a supplied key of `t` bytes held in `key[0..t]`, effective length `t1` bits.
/// Requires 1 <= t <= 128 and 1 <= t1 <= 1024 (the domain the RFC defines).
pub const fn expand_key_buf(key: &[u8; 128], t: usize, t1: usize) -> [u16; 64] {
    let t8 = (t1 + 7) / 8;
    let tm: u8 = (255u32 % (1u32 << (8 + t1 - 8 * t8))) as u8;
    let mut l = [0u8; 128];
    let mut i = 0;
    while i < 128 {
        if i < t {
            l[i] = key[i];
        }
        i += 1;
    }
    // for i = T, T+1, ..., 127 do  L[i] = PITABLE[L[i-1] + L[i-T]]   (addition modulo 256)
    let mut i = 0;
    while i < 128 {
        if i >= t {
            l[i] = PITABLE[((l[i - 1] as usize) + (l[i - t] as usize)) % 256];
        }
        i += 1;
    }
    // L[128-T8] = PITABLE[L[128-T8] & TM]
    l[128 - t8] = PITABLE[(l[128 - t8] & tm) as usize];
    // for i = 127-T8 down to 0 do  L[i] = PITABLE[L[i+1] XOR L[i+T8]]
    let mut n = 0;
    while n < 128 {
        let i = 127 - n; // i = 127 down to 0; only i <= 127 - T8 take part
        if i + t8 <= 127 {
            l[i] = PITABLE[(l[i + 1] ^ l[i + t8]) as usize];
        }
        n += 1;
    }
    let mut k = [0u16; 64];
    let mut i = 0;
    while i < 64 {
        k[i] = (l[2 * i] as u16) + 256 * (l[2 * i + 1] as u16);
        i += 1;
    }
    k
}

/// Key expansion from a slice (1..=128 bytes) and effective key length in bits (1..=1024).
pub fn expand_key(key: &[u8], t1: usize) -> [u16; 64] {
    let mut buf = [0u8; 128];
    let mut i = 0;
    while i < 128 {
        if i < key.len() {
            buf[i] = key[i];
        }
        i += 1;
    }
    expand_key_buf(&buf, key.len(), t1)
}

const S: [u32; 4] = [1, 2, 3, 5];

/// "Mix up R[i]" (section 3.1); indices of R are taken modulo 4.  Returns the new R; `j` is advanced by the caller.
pub const fn mix_up(mut r: [u16; 4], i: usize, k: &[u16; 64], j: usize) -> [u16; 4] {
    let a = r[(i + 3) % 4]; // R[i-1]
    let b = r[(i + 2) % 4]; // R[i-2]
    let c = r[(i + 1) % 4]; // R[i-3]
    r[i] = r[i].wrapping_add(k[j]).wrapping_add(a & b).wrapping_add(!a & c);
    r[i] = r[i].rotate_left(S[i]);
    r
}

/// "Mixing round": mix up R[0], R[1], R[2], R[3] with K[j..j+4].
pub const fn mixing_round(mut r: [u16; 4], k: &[u16; 64], j: usize) -> [u16; 4] {
    let mut i = 0;
    while i < 4 {
        r = mix_up(r, i, k, j + i);
        i += 1;
    }
    r
}

/// "Mash R[i]" (section 3.3): R[i] = R[i] + K[R[i-1] & 63].
pub const fn mash(mut r: [u16; 4], i: usize, k: &[u16; 64]) -> [u16; 4] {
    r[i] = r[i].wrapping_add(k[(r[(i + 3) % 4] & 63) as usize]);
    r
}

pub const fn mashing_round(mut r: [u16; 4], k: &[u16; 64]) -> [u16; 4] {
    let mut i = 0;
    while i < 4 {
        r = mash(r, i, k);
        i += 1;
    }
    r
}

/// "R-Mix up R[i]" (section 4.1).
pub const fn r_mix_up(mut r: [u16; 4], i: usize, k: &[u16; 64], j: usize) -> [u16; 4] {
    let a = r[(i + 3) % 4];
    let b = r[(i + 2) % 4];
    let c = r[(i + 1) % 4];
    r[i] = r[i].rotate_right(S[i]);
    r[i] = r[i].wrapping_sub(k[j]).wrapping_sub(a & b).wrapping_sub(!a & c);
    r
}

/// "R-Mixing round": r-mix up R[3], R[2], R[1], R[0] with K[j], K[j-1], K[j-2], K[j-3] (j is the index used for R[3]).
pub const fn r_mixing_round(mut r: [u16; 4], k: &[u16; 64], j: usize) -> [u16; 4] {
    let mut n = 0;
    while n < 4 {
        r = r_mix_up(r, 3 - n, k, j - n);
        n += 1;
    }
    r
}

/// "R-Mash R[i]" (section 4.3): R[i] = R[i] - K[R[i-1] & 63].
pub const fn r_mash(mut r: [u16; 4], i: usize, k: &[u16; 64]) -> [u16; 4] {
    r[i] = r[i].wrapping_sub(k[(r[(i + 3) % 4] & 63) as usize]);
    r
}

pub const fn r_mashing_round(mut r: [u16; 4], k: &[u16; 64]) -> [u16; 4] {
    let mut n = 0;
    while n < 4 {
        r = r_mash(r, 3 - n, k);
        n += 1;
    }
    r
}

/// Section 3.4: j = 0; five mixing rounds; one mashing round; six mixing rounds; one mashing round; five mixing rounds.
pub const fn encrypt_words(mut r: [u16; 4], k: &[u16; 64]) -> [u16; 4] {
    let mut j = 0;
    let mut n = 0;
    while n < 5 { r = mixing_round(r, k, j); j += 4; n += 1; }
    r = mashing_round(r, k);
    let mut n = 0;
    while n < 6 { r = mixing_round(r, k, j); j += 4; n += 1; }
    r = mashing_round(r, k);
    let mut n = 0;
    while n < 5 { r = mixing_round(r, k, j); j += 4; n += 1; }
    r
}

/// Section 4.4: j = 63; five r-mixing rounds; one r-mashing round; six r-mixing rounds; one r-mashing round; five r-mixing rounds.
pub const fn decrypt_words(mut r: [u16; 4], k: &[u16; 64]) -> [u16; 4] {
    let mut j = 63;
    let mut n = 0;
    while n < 5 { r = r_mixing_round(r, k, j); j = j.wrapping_sub(4); n += 1; }
    r = r_mashing_round(r, k);
    let mut n = 0;
    while n < 6 { r = r_mixing_round(r, k, j); j = j.wrapping_sub(4); n += 1; }
    r = r_mashing_round(r, k);
    let mut n = 0;
    while n < 5 { r = r_mixing_round(r, k, j); j = j.wrapping_sub(4); n += 1; }
    r
}

pub const fn block_words(b: &[u8; 8]) -> [u16; 4] {
    [
        (b[0] as u16) + 256 * (b[1] as u16),
        (b[2] as u16) + 256 * (b[3] as u16),
        (b[4] as u16) + 256 * (b[5] as u16),
        (b[6] as u16) + 256 * (b[7] as u16),
    ]
}
pub const fn words_block(r: [u16; 4]) -> [u8; 8] {
    [r[0] as u8, (r[0] >> 8) as u8, r[1] as u8, (r[1] >> 8) as u8, r[2] as u8, (r[2] >> 8) as u8, r[3] as u8, (r[3] >> 8) as u8]
}

pub const fn encrypt_with(k: &[u16; 64], block: &[u8; 8]) -> [u8; 8] { words_block(encrypt_words(block_words(block), k)) }
pub const fn decrypt_with(k: &[u16; 64], block: &[u8; 8]) -> [u8; 8] { words_block(decrypt_words(block_words(block), k)) }

pub fn encrypt(key: &[u8], t1: usize, block: &[u8; 8]) -> [u8; 8] { encrypt_with(&expand_key(key, t1), block) }
pub fn decrypt(key: &[u8], t1: usize, block: &[u8; 8]) -> [u8; 8] { decrypt_with(&expand_key(key, t1), block) }

#[cfg(test)]
mod tests {
    use super::*;

    // RFC 2268 section 5, all eight vectors.
    #[test]
    fn rfc2268_section5() {
        let k16 = [0x88, 0xbc, 0xa9, 0x0e, 0x90, 0x87, 0x5a, 0x7f, 0x0f, 0x79, 0xc3, 0x84, 0x62, 0x7b, 0xaf, 0xb2];
        let k33 = [
            0x88, 0xbc, 0xa9, 0x0e, 0x90, 0x87, 0x5a, 0x7f, 0x0f, 0x79, 0xc3, 0x84, 0x62, 0x7b, 0xaf, 0xb2, 0x16, 0xf8, 0x0a, 0x6f, 0x85,
            0x92, 0x05, 0x84, 0xc4, 0x2f, 0xce, 0xb0, 0xbe, 0x25, 0x5d, 0xaf, 0x1e,
        ];
        let cases: [(&[u8], usize, u64, u64); 8] = [
            (&[0; 8], 63, 0x0000000000000000, 0xebb773f993278eff),
            (&[0xff; 8], 64, 0xffffffffffffffff, 0x278b27e42e2f0d49),
            (&[0x30, 0, 0, 0, 0, 0, 0, 0], 64, 0x1000000000000001, 0x30649edf9be7d2c2),
            (&[0x88], 64, 0, 0x61a8a244adacccf0),
            (&k16[..7], 64, 0, 0x6ccf4308974c267f),
            (&k16, 64, 0, 0x1a807d272bbe5db1),
            (&k16, 128, 0, 0x2269552ab0f85ca6),
            (&k33, 129, 0, 0x5b78d3a43dfff1f1),
        ];
        for (key, t1, pt, ct) in cases {
            assert_eq!(encrypt(key, t1, &pt.to_be_bytes()), ct.to_be_bytes(), "T={} T1={}", key.len(), t1);
            assert_eq!(decrypt(key, t1, &ct.to_be_bytes()), pt.to_be_bytes());
        }
    }

    #[test]
    fn pitable_is_a_permutation() {
        let mut seen = [false; 256];
        for &p in PITABLE.iter() { seen[p as usize] = true; }
        assert!(seen.iter().all(|&b| b));
        assert_eq!(&PITABLE[..8], &[0xd9, 0x78, 0xf9, 0xc4, 0x19, 0xdd, 0xb5, 0xed]);
        assert_eq!(&PITABLE[248..], &[0x0a, 0xa6, 0x20, 0x68, 0xfe, 0x7f, 0xc1, 0xad]);
    }

    #[test]
    fn extreme_parameters() {
        // T = 128, T1 = 1024 and T1 = 1: in range, round trip
        let key = [0x5au8; 128];
        for t1 in [1usize, 7, 8, 9, 1023, 1024] {
            let k = expand_key(&key, t1);
            let b = [1, 2, 3, 4, 5, 6, 7, 8];
            assert_eq!(decrypt_with(&k, &encrypt_with(&k, &b)), b);
        }
    }
}
