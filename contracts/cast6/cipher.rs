// Contracts on cast6/src/lib.rs against RFC 2612 (bcref::cast6): forward_quad (Q), reverse_quad (QBAR),
// forward_octave (W) -- which contain the three round functions f1!/f2!/f3! --, the constant tables, key_schedule,
// the word conversions and the two block functions.  The block functions are proved for EVERY value of the 12 x 4
// masking and rotation keys (rotation bytes >= 32 included: only the 5 low bits matter on both sides), against the
// contracts of forward_quad / reverse_quad (spec-function stubs).
//
// @module file=cast6/src/lib.rs
use super::*;
use bcref::cast6 as r;
use cipher::Array;

pub fn any_cast6() -> Cast6 { Cast6 { masking: kani::any(), rotate: kani::any() } }
pub fn keyed_of(c: &Cast6) -> r::Keyed { r::Keyed { kr: c.rotate, km: c.masking } }
pub fn eq4(a: &[u32; 4], b: &[u32; 4]) -> bool { (a[0] == b[0]) & (a[1] == b[1]) & (a[2] == b[2]) & (a[3] == b[3]) }
pub fn eq_keyed(c: &Cast6, kd: &r::Keyed) -> bool {
    let mut ok = true;
    let mut i = 0;
    while i < 12 {
        ok &= eq4(&c.masking[i], &kd.km[i]);
        ok &= u32::from_le_bytes(c.rotate[i]) == u32::from_le_bytes(kd.kr[i]);
        i += 1;
    }
    ok
}

// ------------------------------------------------------------------ spec functions (contracts of the helpers)
pub fn spec_forward_quad(beta: &mut [u32; 4], m: &[u32; 4], rot: &[u8; 4]) { *beta = r::q(*beta, rot, m); }
pub fn spec_reverse_quad(beta: &mut [u32; 4], m: &[u32; 4], rot: &[u8; 4]) { *beta = r::qbar(*beta, rot, m); }
pub fn spec_forward_octave(kappa: &mut [u32; 8], m: &[u32], rot: &[u8]) {
    let tm = [m[0], m[1], m[2], m[3], m[4], m[5], m[6], m[7]];
    let tr = [rot[0], rot[1], rot[2], rot[3], rot[4], rot[5], rot[6], rot[7]];
    *kappa = r::w(*kappa, &tr, &tm);
}

// ------------------------------------------------------------------ tables
// The S-boxes the real code uses are entry by entry the reference's (snapshot fidelity), and TM / TR are the values
// of the RFC 2612 2.4 recurrence (Cm, Mm, Cr, Mr), in the layout key_schedule indexes them.
// @ob name=x_tables props=C08 kind=exhaustive fn=cast6::consts::S1,cast6::consts::S2,cast6::consts::S3,cast6::consts::S4,cast6::consts::TM,cast6::consts::TR timeout=300
#[kani::proof]
#[kani::unwind(257)]
fn x_tables() {
    let mut i = 0;
    while i < 256 {
        assert!(S1[i] == r::S1[i] && S2[i] == r::S2[i] && S3[i] == r::S3[i] && S4[i] == r::S4[i]);
        i += 1;
    }
    let mut i = 0;
    while i < 24 {
        let mut j = 0;
        while j < 8 {
            assert!(TM[8 * i + j] == r::TM[i][j]);
            // key_schedule reads TR at 16 * ((i / 2) % 2) + 8 * (i % 2) + j for octave i
            assert!(TR[16 * ((i / 2) % 2) + 8 * (i % 2) + j] == r::TR[i][j]);
            j += 1;
        }
        i += 1;
    }
}

// ------------------------------------------------------------------ helpers
// @ob name=c_forward_quad props=C08,C20 fn=cast6::forward_quad timeout=600
#[kani::proof]
fn c_forward_quad() {
    let mut beta: [u32; 4] = kani::any();
    let m: [u32; 4] = kani::any();
    let rot: [u8; 4] = kani::any();
    let want = r::q(beta, &rot, &m);
    forward_quad(&mut beta, &m, &rot);
    assert!(eq4(&beta, &want));
}
// @ob name=c_reverse_quad props=C08,C20 fn=cast6::reverse_quad timeout=600
#[kani::proof]
fn c_reverse_quad() {
    let mut beta: [u32; 4] = kani::any();
    let m: [u32; 4] = kani::any();
    let rot: [u8; 4] = kani::any();
    let want = r::qbar(beta, &rot, &m);
    reverse_quad(&mut beta, &m, &rot);
    assert!(eq4(&beta, &want));
}
// @ob name=c_forward_octave props=C08,C20 fn=cast6::forward_octave timeout=600
#[kani::proof]
fn c_forward_octave() {
    let mut kappa: [u32; 8] = kani::any();
    let m: [u32; 8] = kani::any();
    let rot: [u8; 8] = kani::any();
    let want = r::w(kappa, &rot, &m);
    forward_octave(&mut kappa, &m[..], &rot[..]);
    assert!(eq4(&[kappa[0], kappa[1], kappa[2], kappa[3]], &[want[0], want[1], want[2], want[3]]));
    assert!(eq4(&[kappa[4], kappa[5], kappa[6], kappa[7]], &[want[4], want[5], want[6], want[7]]));
}
// Q and QBAR under the same keys are mutually inverse (real functions, every key, both orders)
// @ob name=l_quad_inverse props=C01 kind=lemma fn=cast6::forward_quad,cast6::reverse_quad timeout=600
#[kani::proof]
fn l_quad_inverse() {
    let x: [u32; 4] = kani::any();
    let m: [u32; 4] = kani::any();
    let rot: [u8; 4] = kani::any();
    let mut b = x;
    forward_quad(&mut b, &m, &rot);
    reverse_quad(&mut b, &m, &rot);
    assert!(eq4(&b, &x));
    reverse_quad(&mut b, &m, &rot);
    forward_quad(&mut b, &m, &rot);
    assert!(eq4(&b, &x));
}

// @ob name=c_word_conversions props=C08,C20 fn=cast6::to_u32s,cast6::to_u8s timeout=300
#[kani::proof]
#[kani::unwind(10)]
fn c_word_conversions() {
    let b: [u8; 16] = kani::any();
    assert!(eq4(&to_u32s::<4>(&b[..]), &r::words_of(&b)));
    let w: [u32; 4] = kani::any();
    assert!(to_u8s::<16>(&w[..]) == r::bytes_of(&w));
    let k: [u8; 32] = kani::any();
    let kw = to_u32s::<8>(&k[..]);
    let mut i = 0;
    while i < 8 {
        assert!(kw[i] == u32::from_be_bytes([k[4 * i], k[4 * i + 1], k[4 * i + 2], k[4 * i + 3]]));
        i += 1;
    }
}

// key_schedule from ANY prior state, for every 256-bit (padded) key
// @ob name=c_key_schedule props=C08,C20 fn=cast6::Cast6::key_schedule uses=c_forward_octave,x_tables timeout=900
#[kani::proof]
#[kani::stub(forward_octave, spec_forward_octave)]
#[kani::unwind(13)]
fn c_key_schedule() {
    let key: [u8; 32] = kani::any();
    let mut c = any_cast6();
    c.key_schedule(&key);
    let kd = r::key_schedule(&key);
    assert!(eq_keyed(&c, &kd));
    // what the key schedule leaves in `rotate` are 5-bit amounts
    let mut i = 0;
    while i < 12 {
        assert!(c.rotate[i][0] < 32 && c.rotate[i][1] < 32 && c.rotate[i][2] < 32 && c.rotate[i][3] < 32);
        i += 1;
    }
}

// ------------------------------------------------------------------ block functions
// @ob name=c_encrypt_block props=C08,C20 fn=cast6::Cast6::encrypt_block uses=c_forward_quad,c_reverse_quad,c_word_conversions timeout=900
#[kani::proof]
#[kani::stub(forward_quad, spec_forward_quad)]
#[kani::stub(reverse_quad, spec_reverse_quad)]
#[kani::unwind(13)]
fn c_encrypt_block() {
    let c = any_cast6();
    let b: [u8; 16] = kani::any();
    let mut blk = Array(b);
    cipher::BlockCipherEncrypt::encrypt_block(&c, &mut blk);
    assert!(eq4(&r::words_of(&blk.0), &r::encrypt_words(&keyed_of(&c), r::words_of(&b))));
}
// @ob name=c_decrypt_block props=C08,C20 fn=cast6::Cast6::decrypt_block uses=c_forward_quad,c_reverse_quad,c_word_conversions timeout=900
#[kani::proof]
#[kani::stub(forward_quad, spec_forward_quad)]
#[kani::stub(reverse_quad, spec_reverse_quad)]
#[kani::unwind(13)]
fn c_decrypt_block() {
    let c = any_cast6();
    let b: [u8; 16] = kani::any();
    let mut blk = Array(b);
    cipher::BlockCipherDecrypt::decrypt_block(&c, &mut blk);
    assert!(eq4(&r::words_of(&blk.0), &r::decrypt_words(&keyed_of(&c), r::words_of(&b))));
}

/// Uninterpreted *inverse pair* standing for forward_quad / reverse_quad: per key (m, rot) the two are mutually
/// inverse bijections of 128-bit values and otherwise unconstrained (relation table, concrete call counter).
/// Licensed by c_forward_quad / c_reverse_quad (pure functions of (beta, m, rot)) and l_quad_inverse.
pub mod ufq {
    use super::eq4;
    pub const MAXC: usize = 26;
    pub static mut KM: [[u32; 4]; MAXC] = [[0; 4]; MAXC];
    pub static mut KR: [u32; MAXC] = [0; MAXC];
    pub static mut A: [[u32; 4]; MAXC] = [[0; 4]; MAXC]; // fwd(A) = B
    pub static mut B: [[u32; 4]; MAXC] = [[0; 4]; MAXC];
    pub static mut N: usize = 0;
    #[allow(static_mut_refs)]
    pub fn fwd(beta: &mut [u32; 4], m: &[u32; 4], rot: &[u8; 4]) {
        unsafe {
            let kr = u32::from_le_bytes(*rot);
            let x = *beta;
            let mut y: [u32; 4] = kani::any();
            let mut found = false;
            let mut i = 0;
            while i < N {
                if eq4(&KM[i], m) && KR[i] == kr && !found && eq4(&A[i], &x) { y = B[i]; found = true; }
                i += 1;
            }
            if !found {
                let mut i = 0;
                while i < N {
                    if eq4(&KM[i], m) && KR[i] == kr { kani::assume(!eq4(&B[i], &y)); }
                    i += 1;
                }
            }
            assert!(N < MAXC);
            KM[N] = *m; KR[N] = kr; A[N] = x; B[N] = y; N += 1;
            *beta = y;
        }
    }
    #[allow(static_mut_refs)]
    pub fn rev(beta: &mut [u32; 4], m: &[u32; 4], rot: &[u8; 4]) {
        unsafe {
            let kr = u32::from_le_bytes(*rot);
            let y = *beta;
            let mut x: [u32; 4] = kani::any();
            let mut found = false;
            let mut i = 0;
            while i < N {
                if eq4(&KM[i], m) && KR[i] == kr && !found && eq4(&B[i], &y) { x = A[i]; found = true; }
                i += 1;
            }
            if !found {
                let mut i = 0;
                while i < N {
                    if eq4(&KM[i], m) && KR[i] == kr { kani::assume(!eq4(&A[i], &x)); }
                    i += 1;
                }
            }
            assert!(N < MAXC);
            KM[N] = *m; KR[N] = kr; A[N] = x; B[N] = y; N += 1;
            *beta = x;
        }
    }
}
// C01 for every value of the 48 + 48 round keys
// @ob name=l_roundtrip props=C01 kind=lemma fn=cast6::Cast6::encrypt_block,cast6::Cast6::decrypt_block uses=c_forward_quad,c_reverse_quad,l_quad_inverse timeout=900
#[kani::proof]
#[kani::stub(forward_quad, ufq::fwd)]
#[kani::stub(reverse_quad, ufq::rev)]
#[kani::unwind(27)]
fn l_roundtrip() {
    let c = any_cast6();
    let b: [u8; 16] = kani::any();
    let mut blk = Array(b);
    cipher::BlockCipherEncrypt::encrypt_block(&c, &mut blk);
    cipher::BlockCipherDecrypt::decrypt_block(&c, &mut blk);
    assert!(blk.0 == b);
}
// @ob name=l_roundtrip_rev props=C01 kind=lemma fn=cast6::Cast6::encrypt_block,cast6::Cast6::decrypt_block uses=c_forward_quad,c_reverse_quad,l_quad_inverse timeout=900
#[kani::proof]
#[kani::stub(forward_quad, ufq::fwd)]
#[kani::stub(reverse_quad, ufq::rev)]
#[kani::unwind(27)]
fn l_roundtrip_rev() {
    let c = any_cast6();
    let b: [u8; 16] = kani::any();
    let mut blk = Array(b);
    cipher::BlockCipherDecrypt::decrypt_block(&c, &mut blk);
    cipher::BlockCipherEncrypt::encrypt_block(&c, &mut blk);
    assert!(blk.0 == b);
}

// ------------------------------------------------------------------ public API on bytes
/// contract of key_schedule as a spec function (c_key_schedule)
pub fn spec_key_schedule(c: &mut Cast6, key: &[u8; 32]) {
    let kd = r::key_schedule(key);
    c.masking = kd.km;
    c.rotate = kd.kr;
}
// KeyInit::new_from_slice + encrypt_block / decrypt_block == CAST-256 of RFC 2612 on bytes, for every key of the five
// lengths (SYMBOLIC length, zero padding included) and every block; key_schedule and the quad-rounds replaced by
// their contracts.
// @ob name=c_api_enc props=C08,C20 fn=cast6::Cast6::new_from_slice,cast6::Cast6::encrypt_block uses=c_key_schedule,c_forward_quad,c_reverse_quad timeout=900
#[kani::proof]
#[kani::stub(Cast6::key_schedule, spec_key_schedule)]
#[kani::stub(forward_quad, spec_forward_quad)]
#[kani::stub(reverse_quad, spec_reverse_quad)]
#[kani::unwind(34)]
fn c_api_enc() {
    let buf: [u8; 32] = kani::any();
    let n: usize = kani::any();
    kani::assume(n == 16 || n == 20 || n == 24 || n == 28 || n == 32);
    kani::cover!(n == 16);
    kani::cover!(n == 20);
    kani::cover!(n == 32);
    let b: [u8; 16] = kani::any();
    let c = <Cast6 as KeyInit>::new_from_slice(&buf[..n]).unwrap();
    let mut blk = Array(b);
    cipher::BlockCipherEncrypt::encrypt_block(&c, &mut blk);
    assert!(blk.0 == r::encrypt(&buf, n, &b));
}
// @ob name=c_api_dec props=C08,C20 fn=cast6::Cast6::new_from_slice,cast6::Cast6::decrypt_block uses=c_key_schedule,c_forward_quad,c_reverse_quad timeout=900
#[kani::proof]
#[kani::stub(Cast6::key_schedule, spec_key_schedule)]
#[kani::stub(forward_quad, spec_forward_quad)]
#[kani::stub(reverse_quad, spec_reverse_quad)]
#[kani::unwind(34)]
fn c_api_dec() {
    let buf: [u8; 32] = kani::any();
    let n: usize = kani::any();
    kani::assume(n == 16 || n == 20 || n == 24 || n == 28 || n == 32);
    kani::cover!(n == 16);
    kani::cover!(n == 20);
    kani::cover!(n == 32);
    let b: [u8; 16] = kani::any();
    let c = <Cast6 as KeyInit>::new_from_slice(&buf[..n]).unwrap();
    let mut blk = Array(b);
    cipher::BlockCipherDecrypt::decrypt_block(&c, &mut blk);
    assert!(blk.0 == r::decrypt(&buf, n, &b));
}
