//! FIPS-197 AES, byte-oriented, in the standard's own structure (Section 5: Cipher, KeyExpansion,
//! InvCipher, EqInvCipher).  The S-box is *computed* from its definition (multiplicative inverse in
//! GF(2^8) mod x^8+x^4+x^3+x+1 followed by the affine transformation of 5.1.1), not typed.
//! State layout: a block is 16 bytes in[0..16]; state s[r][c] = in[r + 4c] (FIPS-197 3.4); all
//! functions below work directly on the 16-byte block in that column-major order.
//! Vectors: FIPS-197 Appendix B and C.1-C.3.

pub type Block = [u8; 16];

pub const fn xtime(a: u8) -> u8 { (a << 1) ^ (if a & 0x80 != 0 { 0x1b } else { 0 }) }

pub const fn gmul(a: u8, b: u8) -> u8 {
    let mut p = 0u8;
    let mut a = a;
    let mut b = b;
    let mut i = 0;
    while i < 8 {
        if b & 1 != 0 { p ^= a; }
        a = xtime(a);
        b >>= 1;
        i += 1;
    }
    p
}

/// multiplicative inverse in GF(2^8), 0 -> 0: a^254
pub const fn ginv(a: u8) -> u8 {
    let mut r = 1u8;
    let mut i = 0;
    while i < 254 {
        r = gmul(r, a);
        i += 1;
    }
    if a == 0 { 0 } else { r }
}

const fn affine(b: u8) -> u8 {
    b ^ b.rotate_left(1) ^ b.rotate_left(2) ^ b.rotate_left(3) ^ b.rotate_left(4) ^ 0x63
}

const fn make_sbox() -> [u8; 256] {
    let mut t = [0u8; 256];
    let mut i = 0;
    while i < 256 {
        t[i] = affine(ginv(i as u8));
        i += 1;
    }
    t
}
const fn make_inv(t: &[u8; 256]) -> [u8; 256] {
    let mut r = [0u8; 256];
    let mut i = 0;
    while i < 256 {
        r[t[i] as usize] = i as u8;
        i += 1;
    }
    r
}
pub const SBOX: [u8; 256] = make_sbox();
pub const INV_SBOX: [u8; 256] = make_inv(&SBOX);

pub fn sub_bytes(s: &Block) -> Block {
    let mut o = [0u8; 16];
    let mut i = 0;
    while i < 16 { o[i] = SBOX[s[i] as usize]; i += 1; }
    o
}
pub fn inv_sub_bytes(s: &Block) -> Block {
    let mut o = [0u8; 16];
    let mut i = 0;
    while i < 16 { o[i] = INV_SBOX[s[i] as usize]; i += 1; }
    o
}
/// ShiftRows: s'[r][c] = s[r][(c + r) mod 4]
pub fn shift_rows(s: &Block) -> Block {
    let mut o = [0u8; 16];
    let mut c = 0;
    while c < 4 {
        let mut r = 0;
        while r < 4 {
            o[r + 4 * c] = s[r + 4 * ((c + r) % 4)];
            r += 1;
        }
        c += 1;
    }
    o
}
/// InvShiftRows: s'[r][(c + r) mod 4] = s[r][c]
pub fn inv_shift_rows(s: &Block) -> Block {
    let mut o = [0u8; 16];
    let mut c = 0;
    while c < 4 {
        let mut r = 0;
        while r < 4 {
            o[r + 4 * ((c + r) % 4)] = s[r + 4 * c];
            r += 1;
        }
        c += 1;
    }
    o
}
/// ShiftRows applied k times (k mod 4)
pub fn shift_rows_k(s: &Block, k: usize) -> Block {
    let mut o = *s;
    let mut i = 0;
    while i < (k % 4) { o = shift_rows(&o); i += 1; }
    o
}
pub fn inv_shift_rows_k(s: &Block, k: usize) -> Block {
    let mut o = *s;
    let mut i = 0;
    while i < (k % 4) { o = inv_shift_rows(&o); i += 1; }
    o
}
pub fn mix_columns(s: &Block) -> Block {
    let mut o = [0u8; 16];
    let mut c = 0;
    while c < 4 {
        let (a0, a1, a2, a3) = (s[4 * c], s[4 * c + 1], s[4 * c + 2], s[4 * c + 3]);
        o[4 * c] = xtime(a0) ^ (xtime(a1) ^ a1) ^ a2 ^ a3;
        o[4 * c + 1] = a0 ^ xtime(a1) ^ (xtime(a2) ^ a2) ^ a3;
        o[4 * c + 2] = a0 ^ a1 ^ xtime(a2) ^ (xtime(a3) ^ a3);
        o[4 * c + 3] = (xtime(a0) ^ a0) ^ a1 ^ a2 ^ xtime(a3);
        c += 1;
    }
    o
}
pub fn inv_mix_columns(s: &Block) -> Block {
    let mut o = [0u8; 16];
    let mut c = 0;
    while c < 4 {
        let (a0, a1, a2, a3) = (s[4 * c], s[4 * c + 1], s[4 * c + 2], s[4 * c + 3]);
        o[4 * c] = gmul(a0, 0x0e) ^ gmul(a1, 0x0b) ^ gmul(a2, 0x0d) ^ gmul(a3, 0x09);
        o[4 * c + 1] = gmul(a0, 0x09) ^ gmul(a1, 0x0e) ^ gmul(a2, 0x0b) ^ gmul(a3, 0x0d);
        o[4 * c + 2] = gmul(a0, 0x0d) ^ gmul(a1, 0x09) ^ gmul(a2, 0x0e) ^ gmul(a3, 0x0b);
        o[4 * c + 3] = gmul(a0, 0x0b) ^ gmul(a1, 0x0d) ^ gmul(a2, 0x09) ^ gmul(a3, 0x0e);
        c += 1;
    }
    o
}
pub fn xor_block(a: &Block, b: &Block) -> Block {
    let mut o = [0u8; 16];
    let mut i = 0;
    while i < 16 { o[i] = a[i] ^ b[i]; i += 1; }
    o
}

/// KeyExpansion (5.2) for Nk = 4, 6, 8: `w` receives 4*(Nr+1) words as 16-byte round keys.
/// `NK4` = 4*Nk key bytes, `NR1` = Nr + 1 round keys.
pub fn key_expansion<const NK4: usize, const NR1: usize>(key: &[u8; NK4]) -> [Block; NR1] {
    let nk = NK4 / 4;
    let mut w = [[0u8; 4]; 60];
    let mut i = 0;
    while i < nk {
        w[i] = [key[4 * i], key[4 * i + 1], key[4 * i + 2], key[4 * i + 3]];
        i += 1;
    }
    let mut rcon = 1u8;
    while i < 4 * NR1 {
        let mut t = w[i - 1];
        if i % nk == 0 {
            // SubWord(RotWord(t)) xor Rcon
            t = [SBOX[t[1] as usize] ^ rcon, SBOX[t[2] as usize], SBOX[t[3] as usize], SBOX[t[0] as usize]];
            rcon = xtime(rcon);
        } else if nk > 6 && i % nk == 4 {
            t = [SBOX[t[0] as usize], SBOX[t[1] as usize], SBOX[t[2] as usize], SBOX[t[3] as usize]];
        }
        w[i] = [w[i - nk][0] ^ t[0], w[i - nk][1] ^ t[1], w[i - nk][2] ^ t[2], w[i - nk][3] ^ t[3]];
        i += 1;
    }
    let mut rk = [[0u8; 16]; NR1];
    let mut r = 0;
    while r < NR1 {
        let mut c = 0;
        while c < 4 {
            rk[r][4 * c] = w[4 * r + c][0];
            rk[r][4 * c + 1] = w[4 * r + c][1];
            rk[r][4 * c + 2] = w[4 * r + c][2];
            rk[r][4 * c + 3] = w[4 * r + c][3];
            c += 1;
        }
        r += 1;
    }
    rk
}

/// Cipher (5.1) with NR1 = Nr + 1 round keys.
pub fn cipher<const NR1: usize>(rk: &[Block; NR1], input: &Block) -> Block {
    let mut s = xor_block(input, &rk[0]);
    let mut r = 1;
    while r < NR1 - 1 {
        s = xor_block(&mix_columns(&shift_rows(&sub_bytes(&s))), &rk[r]);
        r += 1;
    }
    xor_block(&shift_rows(&sub_bytes(&s)), &rk[NR1 - 1])
}

/// InvCipher (5.3).
pub fn inv_cipher<const NR1: usize>(rk: &[Block; NR1], input: &Block) -> Block {
    let mut s = xor_block(input, &rk[NR1 - 1]);
    let mut r = NR1 - 2;
    while r >= 1 {
        s = inv_mix_columns(&xor_block(&inv_sub_bytes(&inv_shift_rows(&s)), &rk[r]));
        r -= 1;
    }
    xor_block(&inv_sub_bytes(&inv_shift_rows(&s)), &rk[0])
}

/// Decryption round keys of the Equivalent Inverse Cipher (5.3.5): dw[r] = InvMixColumns(w[r]) for 0 < r < Nr.
pub fn eq_inv_keys<const NR1: usize>(rk: &[Block; NR1]) -> [Block; NR1] {
    let mut d = *rk;
    let mut r = 1;
    while r < NR1 - 1 {
        d[r] = inv_mix_columns(&rk[r]);
        r += 1;
    }
    d
}
/// EqInvCipher (5.3.5) with the modified key schedule `dk` (same indexing as rk).
pub fn eq_inv_cipher<const NR1: usize>(dk: &[Block; NR1], input: &Block) -> Block {
    let mut s = xor_block(input, &dk[NR1 - 1]);
    let mut r = NR1 - 2;
    while r >= 1 {
        s = xor_block(&inv_mix_columns(&inv_shift_rows(&inv_sub_bytes(&s))), &dk[r]);
        r -= 1;
    }
    xor_block(&inv_shift_rows(&inv_sub_bytes(&s)), &dk[0])
}

pub fn aes128_encrypt(key: &[u8; 16], b: &Block) -> Block { cipher::<11>(&key_expansion::<16, 11>(key), b) }
pub fn aes192_encrypt(key: &[u8; 24], b: &Block) -> Block { cipher::<13>(&key_expansion::<24, 13>(key), b) }
pub fn aes256_encrypt(key: &[u8; 32], b: &Block) -> Block { cipher::<15>(&key_expansion::<32, 15>(key), b) }
pub fn aes128_decrypt(key: &[u8; 16], b: &Block) -> Block { inv_cipher::<11>(&key_expansion::<16, 11>(key), b) }
pub fn aes192_decrypt(key: &[u8; 24], b: &Block) -> Block { inv_cipher::<13>(&key_expansion::<24, 13>(key), b) }
pub fn aes256_decrypt(key: &[u8; 32], b: &Block) -> Block { inv_cipher::<15>(&key_expansion::<32, 15>(key), b) }

/// One full encryption round as used by the hazmat API: MixColumns(ShiftRows(SubBytes(b))) xor k
pub fn cipher_round(b: &Block, k: &Block) -> Block { xor_block(&mix_columns(&shift_rows(&sub_bytes(b))), k) }
/// InvMixColumns(InvShiftRows(InvSubBytes(b))) xor k
pub fn equiv_inv_cipher_round(b: &Block, k: &Block) -> Block { xor_block(&inv_mix_columns(&inv_shift_rows(&inv_sub_bytes(b))), k) }

#[cfg(test)]
mod tests {
    use super::*;
    fn hex<const N: usize>(s: &str) -> [u8; N] {
        let mut o = [0u8; N];
        for i in 0..N { o[i] = u8::from_str_radix(&s[2 * i..2 * i + 2], 16).unwrap(); }
        o
    }
    #[test]
    fn sbox_values() {
        assert_eq!(SBOX[0], 0x63); assert_eq!(SBOX[1], 0x7c); assert_eq!(SBOX[0x53], 0xed); assert_eq!(SBOX[0xff], 0x16);
        assert_eq!(INV_SBOX[0x63], 0); assert_eq!(INV_SBOX[0xed], 0x53);
        assert_eq!(gmul(0x57, 0x83), 0xc1); assert_eq!(gmul(0x57, 0x13), 0xfe);
    }
    #[test]
    fn appendix_b() {
        let key: [u8; 16] = hex("2b7e151628aed2a6abf7158809cf4f3c");
        let pt: Block = hex("3243f6a8885a308d313198a2e0370734");
        let ct: Block = hex("3925841d02dc09fbdc118597196a0b32");
        assert_eq!(aes128_encrypt(&key, &pt), ct);
        let rk = key_expansion::<16, 11>(&key);
        assert_eq!(rk[10], hex::<16>("d014f9a8c9ee2589e13f0cc8b6630ca6"));
        assert_eq!(rk[1], hex::<16>("a0fafe1788542cb123a339392a6c7605"));
    }
    #[test]
    fn appendix_c() {
        let pt: Block = hex("00112233445566778899aabbccddeeff");
        let k1: [u8; 16] = hex("000102030405060708090a0b0c0d0e0f");
        let c1: Block = hex("69c4e0d86a7b0430d8cdb78070b4c55a");
        assert_eq!(aes128_encrypt(&k1, &pt), c1);
        assert_eq!(aes128_decrypt(&k1, &c1), pt);
        let k2: [u8; 24] = hex("000102030405060708090a0b0c0d0e0f1011121314151617");
        let c2: Block = hex("dda97ca4864cdfe06eaf70a0ec0d7191");
        assert_eq!(aes192_encrypt(&k2, &pt), c2);
        assert_eq!(aes192_decrypt(&k2, &c2), pt);
        let k3: [u8; 32] = hex("000102030405060708090a0b0c0d0e0f101112131415161718191a1b1c1d1e1f");
        let c3: Block = hex("8ea2b7ca516745bfeafc49904b496089");
        assert_eq!(aes256_encrypt(&k3, &pt), c3);
        assert_eq!(aes256_decrypt(&k3, &c3), pt);
        // equivalent inverse cipher agrees
        let rk = key_expansion::<32, 15>(&k3);
        assert_eq!(eq_inv_cipher::<15>(&eq_inv_keys(&rk), &c3), pt);
        let rk = key_expansion::<24, 13>(&k2);
        assert_eq!(eq_inv_cipher::<13>(&eq_inv_keys(&rk), &c2), pt);
        // 192 key expansion vector (A.2): w[51] = 01002202
        assert_eq!(&key_expansion::<24, 13>(&hex("8e73b0f7da0e6452c810f32b809079e562f8ead2522c6b7b"))[12][12..16], &hex::<4>("01002202"));
        // 256 key expansion vector (A.3): w[59] = 706c631e
        assert_eq!(&key_expansion::<32, 15>(&hex("603deb1015ca71be2b73aef0857d77811f352c073b6108d72d9810a30914dff4"))[14][12..16], &hex::<4>("706c631e"));
    }
    #[test]
    fn layers_inverse() {
        let x: Block = hex("00112233445566778899aabbccddeeff");
        assert_eq!(inv_shift_rows(&shift_rows(&x)), x);
        assert_eq!(inv_mix_columns(&mix_columns(&x)), x);
        assert_eq!(inv_sub_bytes(&sub_bytes(&x)), x);
        assert_eq!(shift_rows_k(&x, 4), x);
        // C.1 round 1: start_of_round 00102030.. -> after sub_bytes 63cab704..; after shift_rows 6353e08c..; after mix_columns 5f726415..
        let s: Block = hex("00102030405060708090a0b0c0d0e0f0");
        assert_eq!(sub_bytes(&s), hex::<16>("63cab7040953d051cd60e0e7ba70e18c"));
        assert_eq!(shift_rows(&sub_bytes(&s)), hex::<16>("6353e08c0960e104cd70b751bacad0e7"));
        assert_eq!(mix_columns(&shift_rows(&sub_bytes(&s))), hex::<16>("5f72641557f5bc92f7be3b291db9f91a"));
    }
}
