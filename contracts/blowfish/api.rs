// Kani-side contracts for the blowfish crate (the key schedule and block functions for every state are proved by
// Verus on the extracted functions: /verif/verus/blowfish.vrs).  Here: the initial constants against the digits of
// pi, the byte-order plumbing of encrypt_block / decrypt_block for BE and LE, and the API-level properties.
//
// @module file=blowfish/src/lib.rs
// @config name=zeroize features=zeroize
// @config name=bcrypt features=bcrypt
use super::*;
use cipher::{Array, KeyInit};
include!("@VERIF@/contracts/_common/common.rs");

fn any_bf<T: ByteOrder>() -> Blowfish<T> {
    Blowfish { s: kani::any(), p: kani::any(), _pd: PhantomData }
}

// init_state() returns the first 18 + 1024 words of the hexadecimal expansion of pi (bcref tables are generated
// from Machin's formula) - this discharges the assumption `init_state()@ == init_st()` of the Verus unit.
// @ob name=x_consts_are_pi props=C09,C14 kind=exhaustive fn=blowfish::Blowfish::init_state,blowfish::consts::P,blowfish::consts::S timeout=600
#[kani::proof]
#[kani::unwind(260)]
fn x_consts_are_pi() {
    let st = Blowfish::<BE>::init_state();
    let mut i = 0;
    while i < 18 {
        assert!(st.p[i] == bcref::blowfish::P[i]);
        i += 1;
    }
    let mut b = 0;
    while b < 4 {
        let mut i = 0;
        while i < 256 {
            assert!(st.s[b][i] == bcref::blowfish::S[b][i]);
            i += 1;
        }
        b += 1;
    }
}

// Blowfish::encrypt / decrypt abstracted to uninterpreted functions of (state identity, block) - licensed by the
// Verus contracts `encrypt`, `decrypt` (pure functions of state and input); what is proved here is that
// encrypt_block reads two big-endian (BE) / little-endian (LE) words, applies the permutation, and writes them back
// in the same byte order, touching nothing else.
fn uf_enc<T: ByteOrder>(_s: &Blowfish<T>, lr: [u32; 2]) -> [u32; 2] {
    let x = uf::uf64(((lr[0] as u64) << 32) | lr[1] as u64);
    [(x >> 32) as u32, x as u32]
}

// @ob name=c_block_be props=C09,C04,C15,C20 fn=blowfish::Blowfish::encrypt_block,blowfish::Blowfish::decrypt_block uses=blowfish.verus.encrypt,blowfish.verus.decrypt timeout=600
#[kani::proof]
#[kani::stub(Blowfish::encrypt, uf_enc)]
#[kani::stub(Blowfish::decrypt, uf_enc)]
#[kani::unwind(30)]
fn c_block_be() {
    let p: [u32; 18] = kani::any();
    let bf: Blowfish<BE> = Blowfish { s: [[0; 256]; 4], p, _pd: PhantomData };
    let b: [u8; 8] = kani::any();
    let mut blk = Array(b);
    cipher::BlockCipherEncrypt::encrypt_block(&bf, &mut blk);
    let want = uf_enc(&bf, [u32::from_be_bytes([b[0], b[1], b[2], b[3]]), u32::from_be_bytes([b[4], b[5], b[6], b[7]])]);
    assert!(u32::from_be_bytes([blk.0[0], blk.0[1], blk.0[2], blk.0[3]]) == want[0]);
    assert!(u32::from_be_bytes([blk.0[4], blk.0[5], blk.0[6], blk.0[7]]) == want[1]);
    let mut blk = Array(b);
    cipher::BlockCipherDecrypt::decrypt_block(&bf, &mut blk);
    assert!(u32::from_be_bytes([blk.0[0], blk.0[1], blk.0[2], blk.0[3]]) == want[0]);
    assert!(u32::from_be_bytes([blk.0[4], blk.0[5], blk.0[6], blk.0[7]]) == want[1]);
    let mut i = 0;
    while i < 18 { assert!(bf.p[i] == p[i]); i += 1; }
}
// @ob name=c_block_le props=C09,C04,C15,C20 fn=blowfish::Blowfish::encrypt_block,blowfish::Blowfish::decrypt_block uses=blowfish.verus.encrypt,blowfish.verus.decrypt timeout=600
#[kani::proof]
#[kani::stub(Blowfish::encrypt, uf_enc)]
#[kani::stub(Blowfish::decrypt, uf_enc)]
#[kani::unwind(30)]
fn c_block_le() {
    let p: [u32; 18] = kani::any();
    let bf: Blowfish<LE> = Blowfish { s: [[0; 256]; 4], p, _pd: PhantomData };
    let b: [u8; 8] = kani::any();
    let mut blk = Array(b);
    cipher::BlockCipherEncrypt::encrypt_block(&bf, &mut blk);
    let want = uf_enc(&bf, [u32::from_le_bytes([b[0], b[1], b[2], b[3]]), u32::from_le_bytes([b[4], b[5], b[6], b[7]])]);
    assert!(u32::from_le_bytes([blk.0[0], blk.0[1], blk.0[2], blk.0[3]]) == want[0]);
    assert!(u32::from_le_bytes([blk.0[4], blk.0[5], blk.0[6], blk.0[7]]) == want[1]);
    let mut blk = Array(b);
    cipher::BlockCipherDecrypt::decrypt_block(&bf, &mut blk);
    assert!(u32::from_le_bytes([blk.0[0], blk.0[1], blk.0[2], blk.0[3]]) == want[0]);
    assert!(u32::from_le_bytes([blk.0[4], blk.0[5], blk.0[6], blk.0[7]]) == want[1]);
}

// C11: accepted key lengths are exactly 4..=56 (key schedule replaced by a no-op: its contract is the Verus
// obligation expand_key, for any length >= 1); never panics for any slice length <= 300.
fn nop_expand<T: ByteOrder>(_s: &mut Blowfish<T>, _key: &[u8]) {}
fn cheap_init<T: ByteOrder>() -> Blowfish<T> { Blowfish { s: [[0; 256]; 4], p: [0; 18], _pd: PhantomData } }
// @ob name=k_len_be props=C11 kind=bounded bound="slice length <= 300" fn=blowfish::Blowfish::new_from_slice uses=blowfish.verus.new_from_slice timeout=300
#[kani::proof]
#[kani::stub(Blowfish::expand_key, nop_expand)]
#[kani::stub(Blowfish::init_state, cheap_init)]
#[kani::unwind(20)]
fn k_len_be() {
    let buf: [u8; 301] = kani::any();
    let n: usize = kani::any();
    kani::assume(n <= 300);
    kani::cover!(n == 4);
    kani::cover!(n == 56);
    kani::cover!(n == 57);
    assert!(Blowfish::<BE>::new_from_slice(&buf[..n]).is_ok() == (4 <= n && n <= 56));
    assert!(Blowfish::<LE>::new_from_slice(&buf[..n]).is_ok() == (4 <= n && n <= 56));
}
// fixed-size 56-byte key == the same bytes as a slice (new delegates to new_from_slice)
// @ob name=k_new_is_slice props=C11 fn=blowfish::Blowfish::new timeout=300
#[kani::proof]
#[kani::stub(Blowfish::expand_key, xor_expand)]
#[kani::stub(Blowfish::init_state, cheap_init)]
#[kani::unwind(60)]
fn k_new_is_slice() {
    let k: [u8; 56] = kani::any();
    let a = Blowfish::<BE>::new(&Array(k));
    let b = Blowfish::<BE>::new_from_slice(&k[..]).unwrap();
    let mut i = 0;
    while i < 18 { assert!(a.p[i] == b.p[i]); i += 1; }
}
/// stand-in that makes the state depend on every key byte (so "same cipher" is not vacuous)
fn xor_expand<T: ByteOrder>(s: &mut Blowfish<T>, key: &[u8]) {
    let mut i = 0;
    while i < key.len() && i < 56 {
        s.p[i % 18] ^= (key[i] as u32) << (8 * (i / 18));
        i += 1;
    }
}

// C13: never weak
// @ob name=w_never_weak props=C13 fn=blowfish::Blowfish::weak_key_test timeout=300
#[kani::proof]
#[kani::unwind(60)]
fn w_never_weak() {
    let k: [u8; 56] = kani::any();
    assert!(Blowfish::<BE>::weak_key_test(&Array(k)).is_ok());
    assert!(Blowfish::<LE>::weak_key_test(&Array(k)).is_ok());
}

// C12 clone: equal state (P fully symbolic; S compared on a symbolic index)
// @ob name=c_clone props=C12 fn=blowfish::Blowfish::clone timeout=600
#[kani::proof]
#[kani::unwind(20)]
fn c_clone() {
    let a: Blowfish<BE> = any_bf();
    let b = a.clone();
    let i: usize = kani::any();
    let j: usize = kani::any();
    kani::assume(i < 4 && j < 256);
    assert!(a.s[i][j] == b.s[i][j]);
    let k: usize = kani::any();
    kani::assume(k < 18);
    assert!(a.p[k] == b.p[k]);
}

// C19
// @ob name=n_names props=C19 fn=blowfish::Blowfish::fmt,blowfish::Blowfish::write_alg_name timeout=600
#[kani::proof]
#[kani::unwind(100)]
fn n_names() {
    let a: Blowfish<BE> = any_bf();
    let b: Blowfish<BE> = any_bf();
    let (ta, tb) = (debug_text(&a), debug_text(&b));
    assert!(ta.same(&tb) && ta.is("Blowfish<BE> { ... }"));
    assert!(alg_name_text::<Blowfish<BE>>().is("Blowfish<BE>"));
    let a: Blowfish<LE> = any_bf();
    let b: Blowfish<LE> = any_bf();
    let (ta, tb) = (debug_text(&a), debug_text(&b));
    assert!(ta.same(&tb) && ta.is("Blowfish<LE> { ... }"));
    assert!(alg_name_text::<Blowfish<LE>>().is("Blowfish<LE>"));
}

// C16
// @ob name=z_drop props=C16 cfg=zeroize fn=blowfish::Blowfish::drop timeout=900
#[kani::proof]
#[kani::unwind(4200)]
fn z_drop() {
    let mut m = core::mem::ManuallyDrop::new(any_bf::<BE>());
    let p: *const Blowfish<BE> = &*m;
    unsafe { core::mem::ManuallyDrop::drop(&mut m); }
    let i: usize = kani::any();
    kani::assume(i < core::mem::size_of::<Blowfish<BE>>());
    assert!(unsafe { core::ptr::read_volatile((p as *const u8).add(i)) } == 0);
}
