#!/usr/bin/env python3
"""Mechanical extraction of real functions from /repo's working tree into one Verus file (DESIGN 2.2).

A unit is a template /verif/verus/<unit>.vrs: Verus source (spec functions, lemmas, struct definitions) with
extraction blocks.  For every block the *body of the real function is copied token for token* from the
working tree; the template only contributes the Verus signature (named result + requires/ensures), and
annotations at structural positions: function entry, loop headers (invariant/decreases), begin / end of a loop
body.  Nothing is keyed to statement positions.

  //@unit crate=<crate dir> [file=<default source file>]
  //@ob name=<fn / proof fn name in the generated file> props=C09,C14 [tier=quick] [kind=contract|lemma] [fn=<real fns>]
  //@fn <name> [file=<path in repo>] [nth=<k>] [in="<text that must occur in the enclosing impl header>"]
  //@sig <verus signature up to (not including) the body's opening brace, first line>
  //@spec                      (following lines up to the next //@ directive: requires/ensures/decreases)
  //@entry                     (lines inserted right after the opening brace, after rule R1's lets)
  //@loop <k> [var=<ident>]    (lines inserted between the k-th loop's header and its opening brace; `for _ in` gets <ident>)
  //@loop <k> begin | end | after   (lines inserted at the beginning / end of that loop's body / right after the loop)
  //@loop <k> before-call|after-call <callee> <n>   (lines inserted before / after the statement holding the n-th call of <callee> in loop k; k = 0: the whole body)
  //@rewrite "<from>" => "<to>"   (textual rewrite applied to this function's body; must match; logged)
  //@endfn

Rules applied to the copied body (each application is logged; anything else Verus rejects is "undecided"):
  R1  pattern parameter `[mut a, mut b]: [T; 2]` -> plain parameter named in //@sig + `let mut a = p[0]; ...`
  R7  attributes and comments inside the body are kept; outer attributes/doc comments of the fn are dropped
  R7c `#[cfg(flag)] { .. }` blocks inside bodies resolved for the unit's declared configuration (//@cfgon / //@cfgoff)
  R9  `for _ in` -> `for <var> in` (Verus needs a name to state the invariant)
  R6  `for x in <iter>` -> `for x in <name>: <iter>` (ghost iterator name, to state invariants over `name.index@`)
  R5  //@typemap "A" => "B": monomorphisation of a type name in signatures and bodies (unit-wide)
  Rw  the unit's explicit //@rewrite lines
"""
import re, sys, json
from pathlib import Path


class ExtractError(Exception):
    pass


def strip_comments_mask(src):
    """Return a same-length string where comment and string-literal characters are replaced by spaces (newlines kept)."""
    out = list(src)
    i, n = 0, len(src)
    while i < n:
        c = src[i]
        if src.startswith("//", i):
            j = src.find("\n", i)
            j = n if j < 0 else j
            for k in range(i, j):
                out[k] = " "
            i = j
        elif src.startswith("/*", i):
            depth, j = 1, i + 2
            while j < n and depth:
                if src.startswith("/*", j):
                    depth += 1; j += 2
                elif src.startswith("*/", j):
                    depth -= 1; j += 2
                else:
                    j += 1
            for k in range(i, j):
                if out[k] != "\n":
                    out[k] = " "
            i = j
        elif c == '"':
            j = i + 1
            while j < n and src[j] != '"':
                j += 2 if src[j] == "\\" else 1
            for k in range(i + 1, min(j, n)):
                if out[k] != "\n":
                    out[k] = " "
            i = j + 1
        elif c == "'" and i + 2 < n and (src[i + 2] == "'" or (src[i + 1] == "\\" and src.find("'", i + 2) in range(i + 2, i + 8))):
            j = src.find("'", i + 2 if src[i + 1] != "\\" else i + 3)
            for k in range(i + 1, j):
                out[k] = " "
            i = j + 1
        else:
            i += 1
    return "".join(out)


def match_brace(mask, open_idx, o="{", c="}"):
    depth = 0
    for i in range(open_idx, len(mask)):
        if mask[i] == o:
            depth += 1
        elif mask[i] == c:
            depth -= 1
            if depth == 0:
                return i
    raise ExtractError("unbalanced braces")


def find_fn(src, mask, name, nth=1, within=None):
    """Locate `fn name` (nth occurrence, optionally inside an impl whose header contains `within`).
    Returns (sig_start, body_open, body_close)."""
    hits = []
    for m in re.finditer(r"\bfn\s+" + re.escape(name) + r"\s*(<[^>]*>)?\s*\(", mask):
        if within:
            # find enclosing impl header: nearest preceding 'impl' at a lower nesting
            start = m.start()
            ok = False
            for im in re.finditer(r"\bimpl\b[^{;]*\{", mask[:start]):
                ob = im.end() - 1
                try:
                    cb = match_brace(mask, ob)
                except ExtractError:
                    continue
                if ob < start < cb and within in re.sub(r"\s+", " ", src[im.start():ob]):
                    ok = True
            if not ok:
                continue
        hits.append(m)
    if len(hits) < nth:
        raise ExtractError(f"lost anchor: fn {name} (#{nth}{', in ' + within if within else ''}): {len(hits)} found")
    m = hits[nth - 1]
    # signature extends to the first '{' at paren depth 0 after the name
    i = m.end() - 1
    close = match_brace(mask, i, "(", ")")
    ob, depth, k = -1, 0, close + 1
    while k < len(mask):
        ch = mask[k]
        if ch in "[(<":
            depth += 1
        elif ch in "])>" and not (ch == ">" and mask[k - 1] == "-"):
            depth -= 1
        elif ch == "{" and depth == 0:
            ob = k
            break
        elif ch == ";" and depth == 0:
            break
        k += 1
    if ob < 0:
        raise ExtractError(f"fn {name} has no body")
    cb = match_brace(mask, ob)
    return m.start(), ob, cb


def split_params(s):
    parts, depth, cur = [], 0, ""
    for ch in s:
        if ch in "([<{":
            depth += 1
        elif ch in ")]>}":
            depth -= 1
        if ch == "," and depth == 0:
            parts.append(cur.strip()); cur = ""
        else:
            cur += ch
    if cur.strip():
        parts.append(cur.strip())
    return parts


def norm(s):
    return re.sub(r"\s+", " ", s).strip()


def find_loops(body, mask):
    """Loops in order of appearance: list of (kw_start, header_end(open brace idx), close brace idx)."""
    loops = []
    for m in re.finditer(r"\b(for|while|loop)\b", mask):
        # skip `for` in `impl ... for` / HRTB: inside fn bodies a `for` keyword followed by pattern and `in`
        kw = m.group(1)
        i = m.end()
        depth = 0
        ob = -1
        while i < len(mask):
            ch = mask[i]
            if ch in "([":
                depth += 1
            elif ch in ")]":
                depth -= 1
            elif ch == "{" and depth == 0:
                ob = i
                break
            elif ch == ";" and depth == 0:
                break
            i += 1
        if ob < 0:
            continue
        if kw == "for" and not re.search(r"\bin\b", mask[m.end():ob]):
            continue
        cb = match_brace(mask, ob)
        loops.append((m.start(), ob, cb))
    return loops


class FnBlock:
    def __init__(self, name):
        self.name = name
        self.opts = {}
        self.sig = None
        self.spec = []
        self.entry = []
        self.loop_header = {}
        self.loop_var = {}
        self.loop_iter = {}
        self.loop_call = []   # (loop k, "before"|"after", callee, n, lines)
        self.loop_begin = {}
        self.loop_end = {}
        self.loop_after = {}
        self.rewrites = []


def parse_template(text):
    """Returns (unit opts, obligations, pieces) where pieces is a list of str | FnBlock."""
    unit, obs, pieces = {}, [], []
    lines = text.split("\n")
    cur, target = None, None
    buf = []
    import shlex
    for ln in lines:
        s = ln.strip()
        if s.startswith("//@"):
            d = s[3:].strip()
            kw, _, rest = d.partition(" ")
            if kw == "unit":
                unit = dict(t.split("=", 1) for t in shlex.split(rest))
            elif kw in ("cfgoff", "cfgon"):
                unit.setdefault("_" + kw, []).extend(rest.split())
            elif kw == "typemap":
                m = re.match(r'"(.*)"\s*=>\s*"(.*)"\s*$', rest)
                unit.setdefault("_typemap", []).append((m.group(1), m.group(2)))
            elif kw == "ob":
                kv = dict(t.split("=", 1) for t in shlex.split(rest))
                obs.append(kv)
            elif kw == "fn":
                if buf:
                    pieces.append("\n".join(buf)); buf = []
                toks = shlex.split(rest)
                cur = FnBlock(toks[0])
                cur.opts = dict(t.split("=", 1) for t in toks[1:])
                target = None
            elif kw == "sig":
                cur.sig = rest
                target = None
            elif kw == "spec":
                target = cur.spec
            elif kw == "entry":
                target = cur.entry
            elif kw == "loop":
                toks = shlex.split(rest)
                k = int(toks[0])
                where = "header"
                if len(toks) >= 4 and toks[1] in ("before-call", "after-call"):
                    target = []
                    cur.loop_call.append((k, toks[1].split("-")[0], toks[2], int(toks[3]), target))
                    continue
                for t in toks[1:]:
                    if t.startswith("var="):
                        cur.loop_var[k] = t[4:]
                    elif t.startswith("iter="):
                        cur.loop_iter[k] = t[5:]
                    elif t in ("begin", "end", "after"):
                        where = t
                d_ = {"header": cur.loop_header, "begin": cur.loop_begin, "end": cur.loop_end, "after": cur.loop_after}[where]
                target = d_.setdefault(k, [])
            elif kw == "rewrite":
                m = re.match(r'"(.*)"\s*=>\s*"(.*)"\s*$', rest)
                cur.rewrites.append((m.group(1), m.group(2)))
            elif kw == "endfn":
                pieces.append(cur)
                cur, target = None, None
            else:
                raise ExtractError("unknown directive " + s)
            continue
        if cur is not None:
            if target is not None:
                target.append(ln)
            elif s:
                raise ExtractError(f"text outside a section in //@fn {cur.name}: {s}")
        else:
            buf.append(ln)
    if buf:
        pieces.append("\n".join(buf))
    return unit, obs, pieces


def extract_fn(repo, unit, fb, log):
    f = fb.opts.get("file") or unit.get("file")
    path = Path(repo) / f
    if not path.exists():
        raise ExtractError(f"lost anchor: file {f}")
    src = path.read_text()
    mask = strip_comments_mask(src)
    s0, ob, cb = find_fn(src, mask, fb.name, int(fb.opts.get("nth", "1")), fb.opts.get("in"))
    real_sig = src[s0:ob]
    body = src[ob + 1:cb]
    for frm, to in unit.get("_typemap", []):
        n = real_sig.count(frm) + body.count(frm)
        if n:
            real_sig, body = real_sig.replace(frm, to), body.replace(frm, to)
            log.append(f"R5 {fb.name}: type `{frm}` -> `{to}` ({n}x)")
    # ---- R7c: resolve #[cfg(flag)] / #[cfg(not(flag))] blocks inside the body for the unit's configuration
    def resolve_cfg(text):
        changed = True
        while changed:
            changed = False
            m = re.search(r"#\[cfg\((not\()?\s*(\w+)\s*\)?\)\]\s*\{", text)
            if not m:
                break
            neg, flag = bool(m.group(1)), m.group(2)
            on = flag in unit.get("_cfgon", [])
            off = flag in unit.get("_cfgoff", [])
            if not (on or off):
                raise ExtractError(f"{fb.name}: cfg flag `{flag}` is not declared by //@cfgon / //@cfgoff")
            active = (on and not neg) or (off and neg)
            ob_ = m.end() - 1
            cb_ = match_brace(strip_comments_mask(text), ob_)
            if active:
                text = text[:m.start()] + text[ob_:]
                log.append(f"R7c {fb.name}: kept block of #[cfg({'not(' if neg else ''}{flag}{')' if neg else ''})]")
            else:
                text = text[:m.start()] + text[cb_ + 1:]
                log.append(f"R7c {fb.name}: dropped block of #[cfg({'not(' if neg else ''}{flag}{')' if neg else ''})]")
            changed = True
        return text
    body = resolve_cfg(body)
    # ---- signature check (R1)
    def split_sig(sig, what):
        sg = norm(sig)
        i = sg.find("(", sg.find("fn "))
        if i < 0:
            raise ExtractError(f"cannot parse {what} signature of {fb.name}: {sig}")
        j = match_brace(sg, i, "(", ")")
        rest = sg[j + 1:].strip()
        ret = rest[2:].strip() if rest.startswith("->") else ""
        return split_params(sg[i + 1:j]), ret
    rparams, rret = split_sig(real_sig, "real")
    tparams, tret = split_sig(fb.sig, "template")
    tret_ty = re.sub(r"^\(\s*\w+\s*:\s*(.*)\)$", r"\1", tret).strip()
    if norm(tret_ty) != norm(rret):
        raise ExtractError(f"signature of {fb.name} changed: return type `{rret}` vs template `{tret_ty}`")
    if len(rparams) != len(tparams):
        raise ExtractError(f"signature of {fb.name} changed: {len(rparams)} parameters vs template {len(tparams)}")
    lets = []
    for rp, tp in zip(rparams, tparams):
        if norm(rp) == norm(tp):
            continue
        pm = re.match(r"^\[(.*)\]\s*:\s*(.*)$", rp)
        tm = re.match(r"^(\w+)\s*:\s*(.*)$", tp)
        if pm and tm and norm(pm.group(2)) == norm(tm.group(2)):
            for k, pat in enumerate(split_params(pm.group(1))):
                lets.append(f"let {pat} = {tm.group(1)}[{k}];")
            log.append(f"R1 {fb.name}: pattern parameter `{rp}` -> `{tp}` + {len(split_params(pm.group(1)))} lets")
            continue
        raise ExtractError(f"signature of {fb.name} changed: parameter `{rp}` vs template `{tp}`")
    # ---- body weaving
    bmask = strip_comments_mask(body)
    loops = find_loops(body, bmask)
    inserts = []  # (pos, text, order)
    for k, (ks, lob, lcb) in enumerate(loops, 1):
        if k in fb.loop_var:
            mm = re.match(r"for\s+_\s+in\b", body[ks:lob])
            if mm:
                inserts.append((ks, ks + mm.end(), f"for {fb.loop_var[k]} in"))
                log.append(f"R9 {fb.name}: loop {k} `for _ in` -> `for {fb.loop_var[k]} in`")
        if k in fb.loop_iter:
            mm = re.match(r"for\s+[^{]*?\bin\s+", body[ks:lob])
            if not mm:
                raise ExtractError(f"lost anchor: loop {k} of {fb.name} is not a for loop")
            inserts.append((ks + mm.end(), ks + mm.end(), f"{fb.loop_iter[k]}: "))
            log.append(f"R6 {fb.name}: loop {k} ghost iterator name `{fb.loop_iter[k]}:`")
        if k in fb.loop_header:
            inserts.append((lob, lob, "\n" + "\n".join(fb.loop_header[k]) + "\n"))
        if k in fb.loop_begin:
            inserts.append((lob + 1, lob + 1, "\n" + "\n".join(fb.loop_begin[k]) + "\n"))
        if k in fb.loop_end:
            inserts.append((lcb, lcb, "\n" + "\n".join(fb.loop_end[k]) + "\n"))
        if k in fb.loop_after:
            inserts.append((lcb + 1, lcb + 1, "\n" + "\n".join(fb.loop_after[k]) + "\n"))
    for (k, where, callee, nth_call, lines) in fb.loop_call:
        if k > len(loops):
            raise ExtractError(f"lost anchor: {fb.name} has {len(loops)} loops, annotation refers to loop {k}")
        ks, lob, lcb = loops[k - 1] if k > 0 else (0, 0, len(body))   # loop 0 = the whole function body
        calls = [m.start() for m in re.finditer(r"\b" + re.escape(callee) + r"\s*\(", bmask[lob:lcb])]
        if len(calls) < nth_call:
            raise ExtractError(f"lost anchor: loop {k} of {fb.name} has {len(calls)} calls of {callee}, annotation refers to call {nth_call}")
        cpos = lob + calls[nth_call - 1]
        # statement boundaries: previous / next ';' or '{' '}' at the loop body's nesting level
        a = max(bmask.rfind(";", lob, cpos), bmask.rfind("{", lob, cpos), bmask.rfind("}", lob, cpos)) + 1
        depth, b = 0, cpos
        while b < lcb:
            ch = bmask[b]
            if ch in "([{":
                depth += 1
            elif ch in ")]}":
                depth -= 1
            elif ch == ";" and depth == 0:
                break
            b += 1
        pos = a if where == "before" else b + 1
        inserts.append((pos, pos, "\n" + "\n".join(lines) + "\n"))
        log.append(f"R6 {fb.name}: proof text {where} call #{nth_call} of {callee} in loop {k}")
    for d in (fb.loop_header, fb.loop_begin, fb.loop_end, fb.loop_after, fb.loop_var):
        for k in d:
            if k > len(loops):
                raise ExtractError(f"lost anchor: {fb.name} has {len(loops)} loops, annotation refers to loop {k}")
    out = body
    for a, b, t in sorted(inserts, key=lambda x: (-x[0], -x[1])):
        out = out[:a] + t + out[b:]
    for frm, to in fb.rewrites:
        if frm not in out:
            raise ExtractError(f"lost anchor: rewrite `{frm}` does not match in {fb.name}")
        cnt = out.count(frm)
        out = out.replace(frm, to)
        log.append(f"Rw {fb.name}: `{frm}` -> `{to}` ({cnt}x)")
    entry = "\n".join(lets + fb.entry)
    text = fb.sig + "\n" + "\n".join(fb.spec) + "\n{\n" + entry + "\n" + out + "\n}\n"
    log.append(f"copied {fb.name}: {len(body.splitlines())} body lines from {f}:{src[:ob].count(chr(10)) + 1}, {len(loops)} loops")
    return text, dict(name=fb.name, file=f, line=src[:ob].count("\n") + 1, body_lines=len(body.splitlines()), body_sha=__import__("hashlib").sha256(body.encode()).hexdigest()[:16])


def generate(repo, template_path):
    text = Path(template_path).read_text()
    unit, obs, pieces = parse_template(text)
    log, fns, out = [], [], []
    ranges = []  # (name, first_line, last_line) in generated file
    line = 1
    for p in pieces:
        if isinstance(p, str):
            out.append(p)
            line += p.count("\n") + 1
        else:
            t, info = extract_fn(repo, unit, p, log)
            out.append(t)
            n = t.count("\n") + 1
            ranges.append((p.name, line, line + n - 1))
            line += n
            fns.append(info)
    return "\n".join(out), unit, obs, log, fns, ranges


if __name__ == "__main__":
    g, unit, obs, log, fns, ranges = generate(sys.argv[1], sys.argv[2])
    Path(sys.argv[3]).write_text(g)
    for l in log:
        print(l)
