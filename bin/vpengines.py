"""Engines other than Kani: Verus on mechanically extracted units (/verif/verus/*.vrs)."""
import re, subprocess, time, os, json
from pathlib import Path
import vpextract
from vplib import VERIF, REPO


def load_verus_units():
    """Obligations declared by //@ob lines in /verif/verus/*.vrs, in the same dict shape as Kani obligations."""
    obs = []
    vdir = VERIF / "verus"
    if not vdir.exists():
        return obs
    for f in sorted(vdir.glob("*.vrs")):
        unit, uobs, _ = vpextract.parse_template(f.read_text())
        for kv in uobs:
            o = dict(kv)
            o["props"] = o["props"].split(",")
            o.setdefault("tier", "quick")
            o.setdefault("kind", "contract")
            o["solver"] = "z3(verus)"
            o.setdefault("timeout", "600")
            o["cfg"] = "extracted"
            o["engine"] = "verus"
            o["crate"] = unit.get("crate", f.stem)
            o["unit"] = f
            o["id"] = f"{o['crate']}.verus.{o['name']}" if f.stem == o["crate"] else f"{o['crate']}.verus_{f.stem}.{o['name']}"
            class _M:  # minimal stand-in for Module (assumption scan reads .path)
                pass
            m = _M(); m.path = f; m.crate = o["crate"]; m.configs = {}
            o["module"] = m
            obs.append(o)
    return obs


def fn_ranges(text):
    """(name, first_line, last_line) for every fn item in a Verus file (brace matched on a comment-stripped mask)."""
    mask = vpextract.strip_comments_mask(text)
    out = []
    for m in re.finditer(r"\bfn\s+(\w+)", mask):
        # body: first '{' at depth 0 after the signature's parameter list
        i = mask.find("(", m.end())
        if i < 0:
            continue
        try:
            j = vpextract.match_brace(mask, i, "(", ")")
        except Exception:
            continue
        k, depth, ob = j + 1, 0, -1
        while k < len(mask):
            ch = mask[k]
            if ch in "([":
                depth += 1
            elif ch in ")]":
                depth -= 1
            elif ch == "{" and depth == 0:
                # could be the `({ ... })` of an ensures clause: those are inside parens, depth > 0, so this is the body
                ob = k
                break
            elif ch == ";" and depth == 0:
                break
            k += 1
        if ob < 0:
            continue
        try:
            cb = vpextract.match_brace(mask, ob)
        except Exception:
            continue
        out.append((m.group(1), text[:m.start()].count("\n") + 1, text[:cb].count("\n") + 1))
    return out


def run_verus_unit(scratch, unit_path, obs):
    t0 = time.time()
    results = {}
    gen = scratch.root / f"{Path(unit_path).stem}_verus.rs"
    try:
        text, unit, _, log, fns, _ = vpextract.generate(REPO, unit_path)
    except vpextract.ExtractError as e:
        for o in obs:
            results[o["id"]] = dict(status="error", checks=0, failed=0, covers=None, failed_checks=[], time=None, raw="extraction failed (undecided): " + str(e))
        return results, time.time() - t0, "vpextract " + str(unit_path), str(e)
    gen.write_text(text)
    (scratch.root / f"{Path(unit_path).stem}.extract.log").write_text("\n".join(log))
    timeout = max(int(o["timeout"]) for o in obs)
    cmd = ["verus", str(gen), "--time", "--multiple-errors", "20"]
    try:
        p = subprocess.run(cmd, text=True, capture_output=True, timeout=timeout, cwd=scratch.root)
        out = p.stdout + "\n" + p.stderr
    except subprocess.TimeoutExpired:
        out = "verus timed out"
    wall = time.time() - t0
    ranges = fn_ranges(text)
    m = re.search(r"verification results:: (\d+) verified, (\d+) errors", out)
    compile_err = re.search(r"^error\[E\d+\]", out, re.M) or (m is None)
    # map each error to the fn item containing its primary span
    failed = {}
    blocks = re.split(r"\n(?=error)", out)
    for b in blocks:
        if not b.startswith("error"):
            continue
        lm = re.search(r"--> [^\n:]*:(\d+):\d+", b)
        if not lm:
            continue
        ln = int(lm.group(1))
        owner = None
        for (name, a, z) in ranges:
            if a <= ln <= z and (owner is None or a >= owner[1]):
                owner = (name, a, z)
        if owner:
            failed.setdefault(owner[0], []).append(b.strip()[:1500])
    total_time = None
    tm = re.search(r"total-time:\s+(\d+) ms", out) or re.search(r"Total time.*?(\d+)\s*ms", out)
    names_in_file = {r[0] for r in ranges}
    for o in obs:
        r = dict(status="unknown", checks=0, failed=0, covers=None, failed_checks=[], time=round(wall, 1), raw="")
        if o["name"] not in names_in_file:
            r.update(status="error", raw=f"lost anchor: no fn {o['name']} in generated unit")
        elif compile_err:
            errs = "\n".join(x for x in out.split("\n") if x.startswith("error"))[:1500]
            r.update(status="error", raw="verus could not process the extracted unit (undecided, not a violation): " + (errs or out[-1500:]))
            if "rlimit" in out.lower() or "timed out" in out:
                r["status"] = "timeout"
        elif o["name"] in failed:
            msgs = failed[o["name"]]
            if all("rlimit" in x.lower() or "resource limit" in x.lower() for x in msgs):
                r.update(status="timeout", raw="\n".join(msgs))
            else:
                r.update(status="failed", checks=1, failed=len(msgs),
                         failed_checks=[(re.sub(r"\s+", " ", x.split("\n")[0]), str(gen.name), re.search(r":(\d+):", x).group(1) if re.search(r":(\d+):", x) else "0") for x in msgs],
                         raw="\n\n".join(msgs))
        else:
            r.update(status="success", checks=1)
        r["verus_summary"] = m.group(0) if m else None
        r["extraction"] = dict(log=log, functions=fns)
        results[o["id"]] = r
    return results, wall, " ".join(cmd), out


# ----------------------------------------------------------------------------- syntactic side condition for C15
SCAN_PATTERN = r"\b(Cell|RefCell|UnsafeCell|SyncUnsafeCell|OnceCell|OnceLock|LazyLock|LazyCell|Once|Atomic[A-Za-z0-9]*|Mutex|RwLock|Condvar|thread_local!|lazy_static!?)\b|\bstatic\s+mut\b|\bspin::"
# the only shared mutable state the workspace may reach: cpufeatures' detection cache (an AtomicU8 inside the macro)
SCAN_ALLOWED = [("aes/src/autodetect.rs", "cpufeatures::new!"), ("aes/src/hazmat.rs", "cpufeatures::new!"), ("aes/src/lib.rs", "cpufeatures::new!")]


def load_scan_obligations():
    class _M:
        pass
    m = _M(); m.path = Path(__file__); m.crate = "workspace"; m.configs = {}
    return [dict(name="no_interior_mutability", props=["C15"], tier="quick", kind="syntactic", solver="-", timeout="60", cfg="source",
                 engine="scan", crate="workspace", module=m, unit="scan", id="workspace.scan.no_interior_mutability",
                 fn="every */src/**/*.rs", note="no Cell/RefCell/UnsafeCell/Atomic*/Mutex/static mut/thread_local in cipher code; cpufeatures::new! is the only allowed shared state")]


def run_scan(scratch, unit, obs):
    t0 = time.time()
    hits, allowed, files = [], [], 0
    for f in sorted(Path(REPO).glob("*/src/**/*.rs")):
        files += 1
        rel = str(f.relative_to(REPO))
        text = f.read_text()
        mask = vpextract.strip_comments_mask(text)
        for i, (l, ml) in enumerate(zip(text.split("\n"), mask.split("\n")), 1):
            if re.search(SCAN_PATTERN, ml):
                hits.append((rel, i, l.strip()))
            if "cpufeatures::new!" in ml:
                (allowed if any(rel == a for a, _ in SCAN_ALLOWED) else hits).append((rel, i, l.strip()))
    res = {}
    for o in obs:
        if hits:
            res[o["id"]] = dict(status="failed", checks=files, failed=len(hits), covers=None, time=round(time.time() - t0, 2),
                                failed_checks=[(f"shared mutable state in cipher code: {l}", f, str(n)) for f, n, l in hits[:10]],
                                raw="\n".join(f"{f}:{n}: {l}" for f, n, l in hits))
        else:
            res[o["id"]] = dict(status="success", checks=files, failed=0, covers=None, failed_checks=[], time=round(time.time() - t0, 2),
                                raw=f"{files} files scanned; allowed: {allowed}")
    return res, time.time() - t0, "scan " + SCAN_PATTERN, ""
