// API-level contracts for the sm4 crate: key length (C11), slice/fixed key and clone (C11, C12), weak keys (C13),
// zeroize on drop (C16), Debug / AlgorithmName (C19), multi-block and buffer-to-buffer calls (C04, C15).
//
// @module file=sm4/src/lib.rs
// @config name=zeroize features=zeroize
use super::*;
use super::__vp_cipher::{any_sm4, eq32, eq_bytes16, uftp};
use cipher::{Array, KeyInit};
include!("@VERIF@/contracts/_common/common.rs");

/// stand-in for T' inside the *length* obligation only (the key schedule has its own contract c_key_schedule)
fn cheap_t(x: u32) -> u32 { x }

// ---------------------------------------------------------------- C11 key length
// @ob name=k_len props=C11 kind=bounded bound="slice length <= 300" fn=sm4::Sm4::new_from_slice timeout=300
#[kani::proof]
#[kani::stub(t_prime, cheap_t)]
#[kani::unwind(37)]
fn k_len() {
    let buf: [u8; 301] = kani::any();
    let n: usize = kani::any();
    kani::assume(n <= 300);
    kani::cover!(n == 16);
    kani::cover!(n == 300);
    kani::cover!(n == 0);
    let r = Sm4::new_from_slice(&buf[..n]);
    assert!(r.is_ok() == (n == 16));
}

// fixed-size key and the same bytes as a slice give the same cipher (state equality); clone gives equal state.
// T' abstracted by a record / replay uninterpreted function (cipher.rs; licensed by c_t_prime): the second constructor
// must present T' with the same arguments in the same order.  (The Result-returning constructor runs first, in record
// mode: with it second Kani 0.68 reports the Ok value as Err - a spurious failure, see the report.)
// @ob name=k_slice_same props=C11,C12 fn=sm4::Sm4::new_from_slice,sm4::Sm4::new uses=c_t_prime timeout=300
#[kani::proof]
#[kani::stub(t_prime, uftp::f)]
#[kani::unwind(37)]
fn k_slice_same() {
    let k: [u8; 16] = kani::any();
    let b = Sm4::new_from_slice(&k[..]).unwrap();
    uftp::replay_fwd();
    let a = Sm4::new(&Array(k));
    assert!(uftp::done() && uftp::calls() == 32);
    assert!(eq32(&a.rk, &b.rk));
}
// @ob name=k_clone props=C12 fn=sm4::Sm4::clone timeout=300
#[kani::proof]
#[kani::unwind(37)]
fn k_clone() {
    let a = any_sm4();
    let c = a.clone();
    assert!(eq32(&a.rk, &c.rk));
}

// ---------------------------------------------------------------- C13 no weak keys
// @ob name=c_weak props=C13 fn=sm4::Sm4::weak_key_test,sm4::Sm4::new_checked uses=c_t_prime timeout=300
#[kani::proof]
#[kani::stub(t_prime, uftp::f)]
#[kani::unwind(37)]
fn c_weak() {
    let k: [u8; 16] = kani::any();
    assert!(Sm4::weak_key_test(&Array(k)).is_ok());
    match Sm4::new_checked(&Array(k)) {
        Ok(c) => {
            uftp::replay_fwd();
            let plain = Sm4::new(&Array(k));
            assert!(uftp::done() && uftp::calls() == 32 && eq32(&c.rk, &plain.rk));
        }
        Err(_) => assert!(false),
    }
}

// ---------------------------------------------------------------- C19 Debug / AlgorithmName
// @ob name=c_names props=C19 fn=sm4::Sm4::fmt,sm4::Sm4::write_alg_name timeout=300
#[kani::proof]
#[kani::unwind(100)]
fn c_names() {
    let a = any_sm4();
    let b = any_sm4();
    let (ta, tb) = (debug_text(&a), debug_text(&b));
    assert!(ta.same(&tb)); // identical for all keys
    assert!(ta.names("Sm4")); // names the instance's own type
    assert!(alg_name_text::<Sm4>().names("Sm4"));
}

// ---------------------------------------------------------------- C16 zeroize on drop (feature zeroize)
// @ob name=z_sm4 props=C16 cfg=zeroize fn=sm4::Sm4::drop timeout=300
#[kani::proof]
#[kani::unwind(200)]
fn z_sm4() {
    let mut m = core::mem::ManuallyDrop::new(any_sm4());
    let p: *const Sm4 = &*m;
    unsafe { core::mem::ManuallyDrop::drop(&mut m); }
    assert!(unsafe { all_bytes_zero(p) });
}
// @ob name=z_sm4_clone props=C16 cfg=zeroize fn=sm4::Sm4::drop,sm4::Sm4::clone timeout=300
#[kani::proof]
#[kani::unwind(200)]
fn z_sm4_clone() {
    let mut m = core::mem::ManuallyDrop::new(any_sm4().clone());
    let p: *const Sm4 = &*m;
    unsafe { core::mem::ManuallyDrop::drop(&mut m); }
    assert!(unsafe { all_bytes_zero(p) });
}

// ---------------------------------------------------------------- C04 / C15 multi-block and b2b calls
// The single-block backend function is abstracted to an uninterpreted function on the 128-bit block (licensed by
// cipher.rs c_encrypt / c_decrypt: it is a pure function of (round keys, block)); what is proved is the plumbing of the
// cipher crate's block-slice entry points over this backend: each block goes through exactly once, in order, b2b
// inputs are untouched, nothing but the output blocks is written (guard blocks), the cipher state is unchanged.
pub mod ufb {
    pub const MAXC: usize = 12;
    pub static mut IN: [u128; MAXC] = [0; MAXC];
    pub static mut OUT: [u128; MAXC] = [0; MAXC];
    pub static mut N: usize = 0;
    #[allow(static_mut_refs)]
    pub fn f(x: u128) -> u128 {
        unsafe {
            let y: u128 = kani::any();
            let mut i = 0;
            while i < N {
                kani::assume(IN[i] != x || OUT[i] == y); // functional consistency (Ackermann)
                i += 1;
            }
            assert!(N < MAXC);
            IN[N] = x;
            OUT[N] = y;
            N += 1;
            y
        }
    }
}
fn uf_block(_c: &Sm4, mut block: InOut<'_, '_, Block<Sm4>>) {
    let x = u128::from_be_bytes(block.get_in().0);
    let y = ufb::f(x);
    *block.get_out() = Array(y.to_be_bytes());
}
macro_rules! multi_block {
    ($name:ident, $n:expr, $one:path, $many:path, $b2b:path, $($backend:tt)+) => {
        #[kani::proof]
        #[kani::stub($($backend)+, uf_block)]
        #[kani::unwind(37)]
        fn $name() {
            let d = any_sm4();
            let before = d.rk;
            let inp: [[u8; 16]; $n] = kani::any();
            let mut single = [[0u8; 16]; $n];
            let mut i = 0;
            while i < $n {
                let mut b = Array(inp[i]);
                $one(&d, &mut b);
                single[i] = b.0;
                i += 1;
            }
            let mut blocks = [Array([0u8; 16]); $n];
            let mut i = 0;
            while i < $n { blocks[i] = Array(inp[i]); i += 1; }
            $many(&d, &mut blocks);
            let mut i = 0;
            while i < $n { assert!(eq_bytes16(&blocks[i].0, &single[i])); i += 1; }
            let mut src = [Array([0u8; 16]); $n];
            let mut i = 0;
            while i < $n { src[i] = Array(inp[i]); i += 1; }
            let g: [u8; 16] = kani::any();
            let mut dst = [Array(g); $n + 2];
            $b2b(&d, &src, &mut dst[1..$n + 1]).unwrap();
            assert!(eq_bytes16(&dst[0].0, &g) && eq_bytes16(&dst[$n + 1].0, &g));
            let mut i = 0;
            while i < $n { assert!(eq_bytes16(&dst[i + 1].0, &single[i]) && eq_bytes16(&src[i].0, &inp[i])); i += 1; }
            assert!(eq32(&before, &d.rk));
            assert!(unsafe { ufb::N } == 3 * $n); // the backend really ran once per block and per entry point
        }
    };
}
// @ob name=m_enc_blocks_0 props=C04,C15 kind=bounded bound="n = 0 blocks" fn=sm4::Sm4::encrypt_with_backend,sm4::Sm4::encrypt_block uses=c_encrypt,c_decrypt timeout=300
multi_block!(m_enc_blocks_0, 0, cipher::BlockCipherEncrypt::encrypt_block, cipher::BlockCipherEncrypt::encrypt_blocks, cipher::BlockCipherEncrypt::encrypt_blocks_b2b, <Sm4 as BlockCipherEncBackend>::encrypt_block);
// @ob name=m_enc_blocks_1 props=C04,C15 kind=bounded bound="n = 1 block" fn=sm4::Sm4::encrypt_with_backend,sm4::Sm4::encrypt_block uses=c_encrypt,c_decrypt timeout=300
multi_block!(m_enc_blocks_1, 1, cipher::BlockCipherEncrypt::encrypt_block, cipher::BlockCipherEncrypt::encrypt_blocks, cipher::BlockCipherEncrypt::encrypt_blocks_b2b, <Sm4 as BlockCipherEncBackend>::encrypt_block);
// @ob name=m_enc_blocks_3 props=C04,C15 kind=bounded bound="n = 3 blocks" fn=sm4::Sm4::encrypt_with_backend,sm4::Sm4::encrypt_block uses=c_encrypt,c_decrypt timeout=300
multi_block!(m_enc_blocks_3, 3, cipher::BlockCipherEncrypt::encrypt_block, cipher::BlockCipherEncrypt::encrypt_blocks, cipher::BlockCipherEncrypt::encrypt_blocks_b2b, <Sm4 as BlockCipherEncBackend>::encrypt_block);
// @ob name=m_dec_blocks_0 props=C04,C15 kind=bounded bound="n = 0 blocks" fn=sm4::Sm4::decrypt_with_backend,sm4::Sm4::decrypt_block uses=c_encrypt,c_decrypt timeout=300
multi_block!(m_dec_blocks_0, 0, cipher::BlockCipherDecrypt::decrypt_block, cipher::BlockCipherDecrypt::decrypt_blocks, cipher::BlockCipherDecrypt::decrypt_blocks_b2b, <Sm4 as BlockCipherDecBackend>::decrypt_block);
// @ob name=m_dec_blocks_1 props=C04,C15 kind=bounded bound="n = 1 block" fn=sm4::Sm4::decrypt_with_backend,sm4::Sm4::decrypt_block uses=c_encrypt,c_decrypt timeout=300
multi_block!(m_dec_blocks_1, 1, cipher::BlockCipherDecrypt::decrypt_block, cipher::BlockCipherDecrypt::decrypt_blocks, cipher::BlockCipherDecrypt::decrypt_blocks_b2b, <Sm4 as BlockCipherDecBackend>::decrypt_block);
// @ob name=m_dec_blocks_3 props=C04,C15 kind=bounded bound="n = 3 blocks" fn=sm4::Sm4::decrypt_with_backend,sm4::Sm4::decrypt_block uses=c_encrypt,c_decrypt timeout=300
multi_block!(m_dec_blocks_3, 3, cipher::BlockCipherDecrypt::decrypt_block, cipher::BlockCipherDecrypt::decrypt_blocks, cipher::BlockCipherDecrypt::decrypt_blocks_b2b, <Sm4 as BlockCipherDecBackend>::decrypt_block);
