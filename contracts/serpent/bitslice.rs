// Contracts on every function of serpent/src/bitslice.rs against the Serpent AES submission (bcref::serpent):
// each Osvik S-box circuit sbox_e<i> / sbox_d<i> equals the 4-bit table S_i / S_i^-1 of appendix A.5 applied in all
// 32 bit lanes (lane j = bit j of the four words, word 0 least significant), the dispatchers apply_s / apply_s_inv
// select S_{index mod 8}, linear_transform(_inv) is the bitslice linear transformation of section 3 and its inverse.
//
// @module file=serpent/src/bitslice.rs
use super::*;
use bcref::serpent as r;

/// word-wise equality of two 128-bit states
pub fn eq4(a: &[u32; 4], b: &[u32; 4]) -> bool { (a[0] == b[0]) & (a[1] == b[1]) & (a[2] == b[2]) & (a[3] == b[3]) }

/// contracts of apply_s / apply_s_inv / linear_transform(_inv) as spec functions (used as stubs by the callers in lib.rs)
pub fn spec_apply_s(index: usize, w: Words) -> Words { r::sbox(index, w) }
pub fn spec_apply_s_inv(index: usize, w: Words) -> Words { r::sbox_inv(index, w) }
pub fn spec_lt(w: Words) -> Words { r::lt(w) }
pub fn spec_lt_inv(w: Words) -> Words { r::lt_inv(w) }

macro_rules! sbox_ob {
    ($name:ident, $f:ident, $tab:expr) => {
        #[kani::proof]
        #[kani::unwind(33)]
        fn $name() {
            let w: [u32; 4] = kani::any();
            assert!(eq4(&$f(w), &r::table_bitslice(&$tab, w)));
        }
    };
}
// @ob name=c_sbox_e0 props=C08,C20 fn=serpent::bitslice::sbox_e0 timeout=300
sbox_ob!(c_sbox_e0, sbox_e0, r::S[0]);
// @ob name=c_sbox_e1 props=C08,C20 fn=serpent::bitslice::sbox_e1 timeout=300
sbox_ob!(c_sbox_e1, sbox_e1, r::S[1]);
// @ob name=c_sbox_e2 props=C08,C20 fn=serpent::bitslice::sbox_e2 timeout=300
sbox_ob!(c_sbox_e2, sbox_e2, r::S[2]);
// @ob name=c_sbox_e3 props=C08,C20 fn=serpent::bitslice::sbox_e3 timeout=300
sbox_ob!(c_sbox_e3, sbox_e3, r::S[3]);
// @ob name=c_sbox_e4 props=C08,C20 fn=serpent::bitslice::sbox_e4 timeout=300
sbox_ob!(c_sbox_e4, sbox_e4, r::S[4]);
// @ob name=c_sbox_e5 props=C08,C20 fn=serpent::bitslice::sbox_e5 timeout=300
sbox_ob!(c_sbox_e5, sbox_e5, r::S[5]);
// @ob name=c_sbox_e6 props=C08,C20 fn=serpent::bitslice::sbox_e6 timeout=300
sbox_ob!(c_sbox_e6, sbox_e6, r::S[6]);
// @ob name=c_sbox_e7 props=C08,C20 fn=serpent::bitslice::sbox_e7 timeout=300
sbox_ob!(c_sbox_e7, sbox_e7, r::S[7]);
// @ob name=c_sbox_d0 props=C08,C20 fn=serpent::bitslice::sbox_d0 timeout=300
sbox_ob!(c_sbox_d0, sbox_d0, r::SINV[0]);
// @ob name=c_sbox_d1 props=C08,C20 fn=serpent::bitslice::sbox_d1 timeout=300
sbox_ob!(c_sbox_d1, sbox_d1, r::SINV[1]);
// @ob name=c_sbox_d2 props=C08,C20 fn=serpent::bitslice::sbox_d2 timeout=300
sbox_ob!(c_sbox_d2, sbox_d2, r::SINV[2]);
// @ob name=c_sbox_d3 props=C08,C20 fn=serpent::bitslice::sbox_d3 timeout=300
sbox_ob!(c_sbox_d3, sbox_d3, r::SINV[3]);
// @ob name=c_sbox_d4 props=C08,C20 fn=serpent::bitslice::sbox_d4 timeout=300
sbox_ob!(c_sbox_d4, sbox_d4, r::SINV[4]);
// @ob name=c_sbox_d5 props=C08,C20 fn=serpent::bitslice::sbox_d5 timeout=300
sbox_ob!(c_sbox_d5, sbox_d5, r::SINV[5]);
// @ob name=c_sbox_d6 props=C08,C20 fn=serpent::bitslice::sbox_d6 timeout=300
sbox_ob!(c_sbox_d6, sbox_d6, r::SINV[6]);
// @ob name=c_sbox_d7 props=C08,C20 fn=serpent::bitslice::sbox_d7 timeout=300
sbox_ob!(c_sbox_d7, sbox_d7, r::SINV[7]);

// The dispatchers, for EVERY index (not only 0..32): S_{index mod 8}, never the unreachable!() arm.
// @ob name=c_apply_s_fwd props=C08,C20 fn=serpent::bitslice::apply_s timeout=600
#[kani::proof]
#[kani::unwind(33)]
fn c_apply_s_fwd() {
    let index: usize = kani::any();
    let w: [u32; 4] = kani::any();
    kani::cover!(index % 8 == 7);
    assert!(eq4(&apply_s(index, w), &spec_apply_s(index, w)));
}
// @ob name=c_apply_s_inv props=C08,C20 fn=serpent::bitslice::apply_s_inv timeout=600
#[kani::proof]
#[kani::unwind(33)]
fn c_apply_s_inv() {
    let index: usize = kani::any();
    let w: [u32; 4] = kani::any();
    kani::cover!(index % 8 == 7);
    assert!(eq4(&apply_s_inv(index, w), &spec_apply_s_inv(index, w)));
}
// inverse pair on the real circuits, every index, both orders
// @ob name=l_apply_s_inverse props=C01 kind=lemma fn=serpent::bitslice::apply_s,serpent::bitslice::apply_s_inv timeout=600
#[kani::proof]
fn l_apply_s_inverse() {
    let index: usize = kani::any();
    let w: [u32; 4] = kani::any();
    assert!(eq4(&apply_s_inv(index, apply_s(index, w)), &w));
    assert!(eq4(&apply_s(index, apply_s_inv(index, w)), &w));
}

// @ob name=c_linear_transform_fwd props=C08,C20 fn=serpent::bitslice::linear_transform timeout=300
#[kani::proof]
fn c_linear_transform_fwd() {
    let w: [u32; 4] = kani::any();
    assert!(eq4(&linear_transform(w), &r::lt(w)));
}
// @ob name=c_linear_transform_inv props=C08,C20 fn=serpent::bitslice::linear_transform_inv timeout=300
#[kani::proof]
fn c_linear_transform_inv() {
    let w: [u32; 4] = kani::any();
    assert!(eq4(&linear_transform_inv(w), &r::lt_inv(w)));
}
// @ob name=l_linear_transform_inverse props=C01 kind=lemma fn=serpent::bitslice::linear_transform,serpent::bitslice::linear_transform_inv timeout=300
#[kani::proof]
fn l_linear_transform_inverse() {
    let w: [u32; 4] = kani::any();
    assert!(eq4(&linear_transform_inv(linear_transform(w)), &w));
    assert!(eq4(&linear_transform(linear_transform_inv(w)), &w));
}
