// Contracts on kuznyechik/src/big_soft/backends.rs (build configuration --cfg kuznyechik_backend="soft"): the
// table-driven backend on u128 words.  A block is the u128 read little-endian from the 16 octets in printed order.
//
// Decomposition (the whole cipher over the 64 KiB tables indexed symbolically exhausts memory):
//   c_transform_*    transform(b, T) = XOR_i T[i][b_i] on the two real tables, one byte position at a time (bounded)
//   fused_tables.*   ENC_TABLE = LS, DEC_TABLE = SLINV (concrete), XOR_i LS[i][b_i] = XOR_i L(unit_i(S(b)_i)) (symbolic)
//   lemmas.*         L(y) = XOR_i L(unit_i(y_i))  (GF(2)-linearity of L, L^-1)
//   => contract of transform on the two real tables: transform(b, &ENC_TABLE) = L(S(b)), transform(b, &DEC_TABLE) =
//      L^-1(S^-1(b)); every caller below is proved against that contract (`spec_transform`, chosen by table identity).
//
// Composition obligations (c_expand_enc_keys, c_enc_block, c_dec_block, p_enc_par) replace `transform` and `sub_bytes` by
// the tagged transcript oracle lemmas.rs `tro` on the real side and the corresponding reference functions by the same
// oracle on the reference side (linear in the number of calls).
// OPEN: `transform` itself is only covered on blocks with at most one non-zero byte (c_tu_*: every position, every value, both
// tables, concretely; c_transform_pos3 - one position, symbolic value - now runs out of memory).  Also tried:
// `transform(b, t)` for a fully symbolic block against a table reference that points into a plain nondeterministic
// `[u8; 65536]` local (no `Align16` struct object, so that CBMC's array theory could be used): out of memory after 200 s
// (the reinterpretation as `[[u128; 256]; 16]` is lowered to a 4096-element array expression per read); the same with the
// table reference pointing into a nondeterministic `[[u128; 256]; 16]` (plain word reads, statement transform(b, t) =
// XOR_i W[i][b_i]): timeout at 900 s on cadical.
// @module file=kuznyechik/src/big_soft/backends.rs
// @config name=soft rustflags='--cfg kuznyechik_backend="soft"'
use super::*;
use crate::fused_tables::__vp_fused_tables::entry;
use bcref::kuznyechik as kz;
use crate::__vp_lemmas::ruf;
use crate::__vp_lemmas::tro;
use crate::__vp_lemmas::{spec_dec_dk, spec_inv_keys};

pub fn bytes(x: u128) -> [u8; 16] { x.to_le_bytes() }
pub fn word(b: &[u8; 16]) -> u128 { u128::from_le_bytes(*b) }

/// XOR_i T[i][b_i]
pub fn spec_transform_table(block: u128, t: &Table) -> u128 {
    let b = bytes(block);
    let mut acc = 0u128;
    let mut i = 0;
    while i < 16 {
        acc ^= word(&entry(t, i, b[i]));
        i += 1;
    }
    acc
}

/// contract of `transform` on the two real tables (see the header)
pub fn spec_transform(block: u128, table: &Table) -> u128 {
    if core::ptr::eq(table, &ENC_TABLE) {
        word(&kz::l(&kz::s(&bytes(block))))
    } else {
        assert!(core::ptr::eq(table, &DEC_TABLE)); // no other table exists in the crate
        word(&kz::l_inv(&kz::s_inv(&bytes(block))))
    }
}

// `transform` on the two real tables.  Neither a symbolic 64 KiB table nor the real one read at sixteen symbolic offsets
// is tractable (> 32 GB), and the table reads are plain indexing (nothing to stub), so the statement is checked one byte
// position at a time: byte i of the block symbolic, the other fifteen zero (kind=bounded).  The loop body of `transform`
// (`res ^= table[i][block[i]]`) treats the sixteen positions independently.
macro_rules! transform_at { ($name:ident, $table:ident, $i:expr) => {
    #[kani::proof]
    #[kani::unwind(17)]
    fn $name() {
        let v: u8 = kani::any();
        let mut b = [0u8; 16];
        b[$i] = v;
        let r = transform(word(&b), &$table);
        assert!(r == spec_transform_table(word(&b), &$table));
    }
}; }
// NOT REGISTERED (registered by the previous round as c_transform_enc_3; re-run 2026-10-04 08:40 with RLIMIT_AS 32 GB, machine load ~14: CBMC out of memory -> undecided; renamed because `--harness m_enc_3` is a substring match and pulled this harness into the quick group): ob name=c_transform_pos3 tier=thorough cfg=soft props=C07,C20 kind=bounded bound="block = unit_3(v), v symbolic" fn=kuznyechik::big_soft::backends::transform timeout=3600
transform_at!(c_transform_pos3, ENC_TABLE, 3);

// ... and concretely for EVERY byte position, every byte value and both real tables, the other fifteen bytes zero (2 x 4096
// blocks, kind=exhaustive over these; one harness per table and position, about 210 s each - a whole table in one harness
// timed out at 1500 s): transform(unit_i(v), T) = XOR_j T[j][unit_i(v)_j], checked in the equivalent form
// transform(0) = XOR_j T[j][0] and transform(unit_i(v)) ^ transform(0) = T[i][v] ^ T[i][0].  This pins the reinterpretation of
// the byte table as [[u128; 256]; 16] (offsets, endianness) at every entry of both tables; that the sixteen positions of
// an arbitrary block are treated independently is the loop `res ^= table[i][block[i]]` itself (not machine-checked).
macro_rules! transform_units { ($name:ident, $table:ident, $i:expr) => {
    #[kani::proof]
    #[kani::unwind(257)]
    fn $name() {
        let i: usize = $i;
        let t0 = transform(0, &$table);
        if i == 0 { assert!(t0 == spec_transform_table(0, &$table)); }
        let w0 = word(&entry(&$table, i, 0));
        let mut v = 0;
        while v < 256 {
            let mut b = [0u8; 16];
            b[i] = v as u8;
            assert!(transform(word(&b), &$table) ^ t0 == word(&entry(&$table, i, v as u8)) ^ w0);
            v += 1;
        }
    }
}; }
// @ob name=c_tu_enc_00 cfg=soft props=C07,C20 kind=exhaustive bound="blocks unit_0(v), v = 0..255 (concrete), table ENC_TABLE" fn=kuznyechik::big_soft::backends::transform timeout=900
transform_units!(c_tu_enc_00, ENC_TABLE, 0);
// @ob name=c_tu_enc_01 cfg=soft props=C07,C20 kind=exhaustive bound="blocks unit_1(v), v = 0..255 (concrete), table ENC_TABLE" fn=kuznyechik::big_soft::backends::transform timeout=900
transform_units!(c_tu_enc_01, ENC_TABLE, 1);
// @ob name=c_tu_enc_02 cfg=soft props=C07,C20 kind=exhaustive bound="blocks unit_2(v), v = 0..255 (concrete), table ENC_TABLE" fn=kuznyechik::big_soft::backends::transform timeout=900
transform_units!(c_tu_enc_02, ENC_TABLE, 2);
// @ob name=c_tu_enc_03 cfg=soft props=C07,C20 kind=exhaustive bound="blocks unit_3(v), v = 0..255 (concrete), table ENC_TABLE" fn=kuznyechik::big_soft::backends::transform timeout=900
transform_units!(c_tu_enc_03, ENC_TABLE, 3);
// @ob name=c_tu_enc_04 cfg=soft props=C07,C20 kind=exhaustive bound="blocks unit_4(v), v = 0..255 (concrete), table ENC_TABLE" fn=kuznyechik::big_soft::backends::transform timeout=900
transform_units!(c_tu_enc_04, ENC_TABLE, 4);
// @ob name=c_tu_enc_05 cfg=soft props=C07,C20 kind=exhaustive bound="blocks unit_5(v), v = 0..255 (concrete), table ENC_TABLE" fn=kuznyechik::big_soft::backends::transform timeout=900
transform_units!(c_tu_enc_05, ENC_TABLE, 5);
// @ob name=c_tu_enc_06 cfg=soft props=C07,C20 kind=exhaustive bound="blocks unit_6(v), v = 0..255 (concrete), table ENC_TABLE" fn=kuznyechik::big_soft::backends::transform timeout=900
transform_units!(c_tu_enc_06, ENC_TABLE, 6);
// @ob name=c_tu_enc_07 cfg=soft props=C07,C20 kind=exhaustive bound="blocks unit_7(v), v = 0..255 (concrete), table ENC_TABLE" fn=kuznyechik::big_soft::backends::transform timeout=900
transform_units!(c_tu_enc_07, ENC_TABLE, 7);
// @ob name=c_tu_enc_08 cfg=soft props=C07,C20 kind=exhaustive bound="blocks unit_8(v), v = 0..255 (concrete), table ENC_TABLE" fn=kuznyechik::big_soft::backends::transform timeout=900
transform_units!(c_tu_enc_08, ENC_TABLE, 8);
// @ob name=c_tu_enc_09 cfg=soft props=C07,C20 kind=exhaustive bound="blocks unit_9(v), v = 0..255 (concrete), table ENC_TABLE" fn=kuznyechik::big_soft::backends::transform timeout=900
transform_units!(c_tu_enc_09, ENC_TABLE, 9);
// @ob name=c_tu_enc_10 cfg=soft props=C07,C20 kind=exhaustive bound="blocks unit_10(v), v = 0..255 (concrete), table ENC_TABLE" fn=kuznyechik::big_soft::backends::transform timeout=900
transform_units!(c_tu_enc_10, ENC_TABLE, 10);
// @ob name=c_tu_enc_11 cfg=soft props=C07,C20 kind=exhaustive bound="blocks unit_11(v), v = 0..255 (concrete), table ENC_TABLE" fn=kuznyechik::big_soft::backends::transform timeout=900
transform_units!(c_tu_enc_11, ENC_TABLE, 11);
// @ob name=c_tu_enc_12 cfg=soft props=C07,C20 kind=exhaustive bound="blocks unit_12(v), v = 0..255 (concrete), table ENC_TABLE" fn=kuznyechik::big_soft::backends::transform timeout=900
transform_units!(c_tu_enc_12, ENC_TABLE, 12);
// @ob name=c_tu_enc_13 cfg=soft props=C07,C20 kind=exhaustive bound="blocks unit_13(v), v = 0..255 (concrete), table ENC_TABLE" fn=kuznyechik::big_soft::backends::transform timeout=900
transform_units!(c_tu_enc_13, ENC_TABLE, 13);
// @ob name=c_tu_enc_14 cfg=soft props=C07,C20 kind=exhaustive bound="blocks unit_14(v), v = 0..255 (concrete), table ENC_TABLE" fn=kuznyechik::big_soft::backends::transform timeout=900
transform_units!(c_tu_enc_14, ENC_TABLE, 14);
// @ob name=c_tu_enc_15 cfg=soft props=C07,C20 kind=exhaustive bound="blocks unit_15(v), v = 0..255 (concrete), table ENC_TABLE" fn=kuznyechik::big_soft::backends::transform timeout=900
transform_units!(c_tu_enc_15, ENC_TABLE, 15);
// @ob name=c_tu_dec_00 cfg=soft props=C07,C20 kind=exhaustive bound="blocks unit_0(v), v = 0..255 (concrete), table DEC_TABLE" fn=kuznyechik::big_soft::backends::transform timeout=900
transform_units!(c_tu_dec_00, DEC_TABLE, 0);
// @ob name=c_tu_dec_01 cfg=soft props=C07,C20 kind=exhaustive bound="blocks unit_1(v), v = 0..255 (concrete), table DEC_TABLE" fn=kuznyechik::big_soft::backends::transform timeout=900
transform_units!(c_tu_dec_01, DEC_TABLE, 1);
// @ob name=c_tu_dec_02 cfg=soft props=C07,C20 kind=exhaustive bound="blocks unit_2(v), v = 0..255 (concrete), table DEC_TABLE" fn=kuznyechik::big_soft::backends::transform timeout=900
transform_units!(c_tu_dec_02, DEC_TABLE, 2);
// @ob name=c_tu_dec_03 cfg=soft props=C07,C20 kind=exhaustive bound="blocks unit_3(v), v = 0..255 (concrete), table DEC_TABLE" fn=kuznyechik::big_soft::backends::transform timeout=900
transform_units!(c_tu_dec_03, DEC_TABLE, 3);
// @ob name=c_tu_dec_04 cfg=soft props=C07,C20 kind=exhaustive bound="blocks unit_4(v), v = 0..255 (concrete), table DEC_TABLE" fn=kuznyechik::big_soft::backends::transform timeout=900
transform_units!(c_tu_dec_04, DEC_TABLE, 4);
// @ob name=c_tu_dec_05 cfg=soft props=C07,C20 kind=exhaustive bound="blocks unit_5(v), v = 0..255 (concrete), table DEC_TABLE" fn=kuznyechik::big_soft::backends::transform timeout=900
transform_units!(c_tu_dec_05, DEC_TABLE, 5);
// @ob name=c_tu_dec_06 cfg=soft props=C07,C20 kind=exhaustive bound="blocks unit_6(v), v = 0..255 (concrete), table DEC_TABLE" fn=kuznyechik::big_soft::backends::transform timeout=900
transform_units!(c_tu_dec_06, DEC_TABLE, 6);
// @ob name=c_tu_dec_07 cfg=soft props=C07,C20 kind=exhaustive bound="blocks unit_7(v), v = 0..255 (concrete), table DEC_TABLE" fn=kuznyechik::big_soft::backends::transform timeout=900
transform_units!(c_tu_dec_07, DEC_TABLE, 7);
// @ob name=c_tu_dec_08 cfg=soft props=C07,C20 kind=exhaustive bound="blocks unit_8(v), v = 0..255 (concrete), table DEC_TABLE" fn=kuznyechik::big_soft::backends::transform timeout=900
transform_units!(c_tu_dec_08, DEC_TABLE, 8);
// @ob name=c_tu_dec_09 cfg=soft props=C07,C20 kind=exhaustive bound="blocks unit_9(v), v = 0..255 (concrete), table DEC_TABLE" fn=kuznyechik::big_soft::backends::transform timeout=900
transform_units!(c_tu_dec_09, DEC_TABLE, 9);
// @ob name=c_tu_dec_10 cfg=soft props=C07,C20 kind=exhaustive bound="blocks unit_10(v), v = 0..255 (concrete), table DEC_TABLE" fn=kuznyechik::big_soft::backends::transform timeout=900
transform_units!(c_tu_dec_10, DEC_TABLE, 10);
// @ob name=c_tu_dec_11 cfg=soft props=C07,C20 kind=exhaustive bound="blocks unit_11(v), v = 0..255 (concrete), table DEC_TABLE" fn=kuznyechik::big_soft::backends::transform timeout=900
transform_units!(c_tu_dec_11, DEC_TABLE, 11);
// @ob name=c_tu_dec_12 cfg=soft props=C07,C20 kind=exhaustive bound="blocks unit_12(v), v = 0..255 (concrete), table DEC_TABLE" fn=kuznyechik::big_soft::backends::transform timeout=900
transform_units!(c_tu_dec_12, DEC_TABLE, 12);
// @ob name=c_tu_dec_13 cfg=soft props=C07,C20 kind=exhaustive bound="blocks unit_13(v), v = 0..255 (concrete), table DEC_TABLE" fn=kuznyechik::big_soft::backends::transform timeout=900
transform_units!(c_tu_dec_13, DEC_TABLE, 13);
// @ob name=c_tu_dec_14 cfg=soft props=C07,C20 kind=exhaustive bound="blocks unit_14(v), v = 0..255 (concrete), table DEC_TABLE" fn=kuznyechik::big_soft::backends::transform timeout=900
transform_units!(c_tu_dec_14, DEC_TABLE, 14);
// @ob name=c_tu_dec_15 cfg=soft props=C07,C20 kind=exhaustive bound="blocks unit_15(v), v = 0..255 (concrete), table DEC_TABLE" fn=kuznyechik::big_soft::backends::transform timeout=900
transform_units!(c_tu_dec_15, DEC_TABLE, 15);

// @ob name=c_sub_bytes cfg=soft props=C07,C20 fn=kuznyechik::big_soft::backends::sub_bytes timeout=300
#[kani::proof]
#[kani::unwind(17)]
fn c_sub_bytes() {
    let b: u128 = kani::any();
    assert!(kz::eq(&bytes(sub_bytes(b, &P)), &kz::s(&bytes(b))));
    assert!(kz::eq(&bytes(sub_bytes(b, &P_INV)), &kz::s_inv(&bytes(b))));
}

pub fn spec_sub_bytes(block: u128, sbox: &[u8; 256]) -> u128 {
    if core::ptr::eq(sbox, &P) {
        word(&kz::s(&bytes(block)))
    } else {
        assert!(core::ptr::eq(sbox, &P_INV));
        word(&kz::s_inv(&bytes(block)))
    }
}

pub fn raw_keys(k: &RoundKeys) -> [[u8; 16]; 10] {
    let mut out = [[0u8; 16]; 10];
    let mut i = 0;
    while i < 10 {
        out[i] = bytes(k[i]);
        i += 1;
    }
    out
}

// ---- transcript-oracle stand-ins with the real signatures (see lemmas.rs `tro`): `transform` on the two real tables is
// LS = L o S resp. LISI = L^-1 o S^-1 of its argument (contract `spec_transform`), `sub_bytes` on the two real S-boxes is
// S resp. S^-1 (c_sub_bytes)
pub fn tr_transform(block: u128, table: &Table) -> u128 {
    if core::ptr::eq(table, &ENC_TABLE) {
        tro::ask(tro::LS, block)
    } else {
        assert!(core::ptr::eq(table, &DEC_TABLE)); // no other table exists in the crate
        tro::ask(tro::LISI, block)
    }
}
pub fn tr_sub_bytes(block: u128, sbox: &[u8; 256]) -> u128 {
    if core::ptr::eq(sbox, &P) {
        tro::ask(tro::S, block)
    } else {
        assert!(core::ptr::eq(sbox, &P_INV)); // no other S-box exists in the crate
        tro::ask(tro::SI, block)
    }
}

// the 32 constants are read from KEYGEN by the real code and from the checked table CREF by the reference; 32 oracle calls
// @ob name=c_expand_enc_keys cfg=soft props=C07,C20 fn=kuznyechik::big_soft::backends::expand_enc_keys uses=c_tu_enc_*,c_enc_table_lo,c_enc_table_hi,c_ls_table,l_l_decomp,c_keygen,c_cref_lo,c_cref_hi timeout=600 note="assumes the contract spec_transform of transform; for this backend transform is machine-checked only on blocks with at most one non-zero byte (c_tu_*), the independence of the sixteen byte positions is by inspection of its loop"
#[kani::proof]
#[kani::stub(transform, tr_transform)]
#[kani::stub(bcref::kuznyechik::lsx, tro::lsx)]
#[kani::stub(bcref::kuznyechik::c, crate::utils::__vp_utils::cref_lookup)]
#[kani::unwind(33)]
fn c_expand_enc_keys() {
    let key: [u8; 32] = kani::any();
    let rk = expand_enc_keys(&cipher::Array(key));
    assert!(tro::recorded() == 32);
    tro::start_replay();
    let spec = kz::key_schedule(&key);
    assert!(tro::all_replayed());
    let mut i = 0;
    while i < 10 {
        assert!(kz::eq(&bytes(rk[i]), &spec[i]));
        i += 1;
    }
}

// for every value of the ten encryption keys: uses S^-1(S(x)) = x
// @ob name=c_inv_enc_keys cfg=soft props=C07,C20 fn=kuznyechik::big_soft::backends::inv_enc_keys uses=c_tu_dec_*,c_dec_table_lo,c_dec_table_hi,c_slinv_table,l_linv_decomp,c_sub_bytes timeout=900 note="assumes the contract spec_transform of transform; for this backend transform is machine-checked only on blocks with at most one non-zero byte (c_tu_*), the independence of the sixteen byte positions is by inspection of its loop"
#[kani::proof]
#[kani::stub(transform, spec_transform)]
#[kani::stub(bcref::kuznyechik::l, ruf::l)]
#[kani::stub(bcref::kuznyechik::l_inv, ruf::l_inv)]
#[kani::stub(bcref::kuznyechik::c, crate::utils::__vp_utils::cref_lookup)]
#[kani::unwind(151)]
fn c_inv_enc_keys() {
    let enc: RoundKeys = kani::any();
    let dec = inv_enc_keys(&enc);
    let spec = spec_inv_keys(&raw_keys(&enc));
    let mut i = 0;
    while i < 10 {
        assert!(kz::eq(&bytes(dec[i]), &spec[i]));
        i += 1;
    }
}

pub fn enc_block(rk: &RoundKeys, b: [u8; 16]) -> [u8; 16] {
    let inp = cipher::Array(b);
    let mut out = cipher::Array([0u8; 16]);
    cipher::BlockCipherEncBackend::encrypt_block(&EncBackend(rk), cipher::InOut::from((&inp, &mut out)));
    out.0
}
pub fn dec_block(rk: &RoundKeys, b: [u8; 16]) -> [u8; 16] {
    let inp = cipher::Array(b);
    let mut out = cipher::Array([0u8; 16]);
    cipher::BlockCipherDecBackend::decrypt_block(&DecBackend(rk), cipher::InOut::from((&inp, &mut out)));
    out.0
}

// for every value of the ten round keys and every block
// @ob name=c_enc_block cfg=soft props=C07,C20 fn=kuznyechik::big_soft::backends::EncBackend::encrypt_block uses=c_tu_enc_*,c_enc_table_lo,c_enc_table_hi,c_ls_table,l_l_decomp timeout=600 note="assumes the contract spec_transform of transform; for this backend transform is machine-checked only on blocks with at most one non-zero byte (c_tu_*), the independence of the sixteen byte positions is by inspection of its loop"
#[kani::proof]
#[kani::stub(transform, tr_transform)]
#[kani::stub(bcref::kuznyechik::lsx, tro::lsx)]
#[kani::unwind(17)]
fn c_enc_block() {
    let rk: RoundKeys = kani::any();
    let b: [u8; 16] = kani::any();
    let real = enc_block(&rk, b);
    assert!(tro::recorded() == 9);
    tro::start_replay();
    let spec = kz::encrypt_with(&raw_keys(&rk), &b);
    assert!(tro::all_replayed());
    assert!(kz::eq(&real, &spec));
}

// for every value of the ten decryption words (with dk = spec_inv_keys(K) this is the standard's D under K:
// lemmas.l_dec_dk_is_standard).  The first stage uses S^-1(S(x)) = x (lemmas.l_s_inverse), see `tro::sd_first`.
// @ob name=c_dec_block cfg=soft props=C07,C20 fn=kuznyechik::big_soft::backends::DecBackend::decrypt_block uses=c_tu_dec_*,c_dec_table_lo,c_dec_table_hi,c_slinv_table,l_linv_decomp,c_sub_bytes,l_s_inverse timeout=600 note="assumes the contract spec_transform of transform; for this backend transform is machine-checked only on blocks with at most one non-zero byte (c_tu_*), the independence of the sixteen byte positions is by inspection of its loop"
#[kani::proof]
#[kani::stub(transform, tr_transform)]
#[kani::stub(sub_bytes, tr_sub_bytes)]
#[kani::stub(crate::__vp_lemmas::sd_first, tro::sd_first)]
#[kani::stub(crate::__vp_lemmas::sd_round, tro::sd_round)]
#[kani::stub(crate::__vp_lemmas::sd_last, tro::sd_last)]
#[kani::unwind(17)]
fn c_dec_block() {
    let dk: RoundKeys = kani::any();
    let b: [u8; 16] = kani::any();
    let real = dec_block(&dk, b);
    assert!(tro::recorded() == 11);
    tro::start_replay();
    let spec = spec_dec_dk(&raw_keys(&dk), &b);
    assert!(tro::all_replayed());
    assert!(kz::eq(&real, &spec));
}

// ---- encrypt_par_blocks (C04; parallel width 3; decryption has width 1 and no parallel function of its own): for every
// value of the ten round keys and every three blocks, output lane j is what the single-block function returns on input
// lane j - buffer to buffer (input unchanged, guard blocks around the output untouched) and in place - for EVERY
// transform (transcript oracle: the three single-block calls are recorded, the parallel function, which interleaves the
// lanes, must ask exactly the same questions: parallel call p = 3 * round + lane).  The keys are not written.
pub type Par = ParBlocks<EncBackend<'static>>;
// @ob name=p_enc_par cfg=soft props=C04,C20 fn=kuznyechik::big_soft::backends::EncBackend::encrypt_par_blocks,kuznyechik::big_soft::backends::EncBackend::encrypt_block timeout=600
#[kani::proof]
#[kani::stub(transform, tr_transform)]
#[kani::unwind(65)]
fn p_enc_par() {
    let rk: RoundKeys = kani::any();
    let rk0 = rk;
    let (b0, b1, b2): ([u8; 16], [u8; 16], [u8; 16]) = (kani::any(), kani::any(), kani::any());
    let inp = [b0, b1, b2];
    let mut single = [[0u8; 16]; 3];
    let mut j = 0;
    while j < 3 {
        single[j] = enc_block(&rk, inp[j]);
        j += 1;
    }
    assert!(tro::recorded() == 27);
    let mut p = 0;
    while p < 27 {
        tro::sched(p, 9 * (p % 3) + p / 3);
        p += 1;
    }
    // buffer to buffer
    tro::start_replay();
    let src: Par = Array([Array(b0), Array(b1), Array(b2)]);
    let g: [u8; 16] = kani::any();
    let mut dst = [Array(g); 5];
    {
        let out: &mut Par = (&mut dst[1..4]).try_into().unwrap();
        cipher::BlockCipherEncBackend::encrypt_par_blocks(&EncBackend(&rk), InOut::from((&src, out)));
    }
    assert!(tro::all_replayed());
    assert!(kz::eq(&dst[0].0, &g) && kz::eq(&dst[4].0, &g));
    let mut j = 0;
    while j < 3 {
        assert!(kz::eq(&dst[1 + j].0, &single[j]));
        assert!(kz::eq(&src.0[j].0, &inp[j]));
        j += 1;
    }
    // in place
    tro::start_replay();
    let mut buf = [Array(g), Array(b0), Array(b1), Array(b2), Array(g)];
    {
        let io: &mut Par = (&mut buf[1..4]).try_into().unwrap();
        cipher::BlockCipherEncBackend::encrypt_par_blocks(&EncBackend(&rk), InOut::from(io));
    }
    assert!(tro::all_replayed());
    assert!(kz::eq(&buf[0].0, &g) && kz::eq(&buf[4].0, &g));
    let mut j = 0;
    while j < 3 {
        assert!(kz::eq(&buf[1 + j].0, &single[j]));
        j += 1;
    }
    // keys not written
    let mut i = 0;
    while i < 10 {
        assert!(rk[i] == rk0[i]);
        i += 1;
    }
}

// ---- uninterpreted stand-ins with the real signatures, for the plumbing obligations (C11, C12, C13, C16) in api_soft.rs
// (uf_transform is no longer used: the C04 obligations now replace the block functions, see api_common.inc)
include!("@VERIF@/contracts/kuznyechik/uf_common.inc");
pub fn uf_expand_enc_keys(key: &Key) -> RoundKeys { unsafe { core::mem::transmute(ufs::k2rk(&key.0)) } }
pub fn uf_inv_enc_keys(enc: &RoundKeys) -> RoundKeys {
    unsafe { core::mem::transmute(ufs::rk2rk(&core::mem::transmute::<RoundKeys, [u8; 160]>(*enc))) }
}
pub fn uf_transform(block: u128, table: &Table) -> u128 {
    word(&ufs::blk(&bytes(block), &[0u8; 16], table as *const Table as usize))
}

// ---- contracts of key expansion / inversion as spec functions with the real signatures (stubs for api_*.rs)
pub fn spec_expand_enc_keys(key: &Key) -> RoundKeys { unsafe { core::mem::transmute(kz::key_schedule(&key.0)) } }
pub fn spec_inv_enc_keys(enc: &RoundKeys) -> RoundKeys { unsafe { core::mem::transmute(spec_inv_keys(&raw_keys(enc))) } }
