// Contracts on serpent/src/lib.rs: helpers (xor, expand_key, read_words, write_words), the key schedule inside
// KeyInit::new_from_slice, and the two block functions, against the Serpent AES submission (bcref::serpent), under
// both expansions of unroll31! (default: 31 textual copies; --cfg serpent_no_unroll: a `for` loop).
// The block functions are proved for EVERY value of the 33 round keys (not only reachable ones), against the
// contracts of their callees: by bitslice.rs c_apply_s_fwd, c_apply_s_inv, c_linear_transform_fwd, c_linear_transform_inv the
// real apply_s / apply_s_inv / linear_transform(_inv) and the reference's sbox / sbox_inv / lt / lt_inv are the same
// functions, so both are replaced by one (scheduled) uninterpreted function each: what remains to be checked is the
// composition (round structure, key order, S-box numbering, byte order), which takes seconds.
//
// @module file=serpent/src/lib.rs
// @config name=no_unroll rustflags="--cfg serpent_no_unroll"
use super::*;
use crate::bitslice::__vp_bitslice::eq4;
use bcref::serpent as r;
use cipher::Array;
include!("@VERIF@/contracts/serpent/sched_uf.inc");

type SArg = (usize, [u32; 4]);
fn eq_sarg(a: &SArg, b: &SArg) -> bool { a.0 == b.0 && eq4(&a.1, &b.1) }
fn eq_w(a: &[u32; 4], b: &[u32; 4]) -> bool { eq4(a, b) }
// S-box layer (forward), S-box layer (inverse), linear transformation, inverse linear transformation
sched_uf!(uf_s, SArg, (0, [0; 4]), [u32; 4], [0; 4], 65, eq_sarg);
sched_uf!(uf_si, SArg, (0, [0; 4]), [u32; 4], [0; 4], 32, eq_sarg);
sched_uf!(uf_l, [u32; 4], [0; 4], [u32; 4], [0; 4], 31, eq_w);
sched_uf!(uf_li, [u32; 4], [0; 4], [u32; 4], [0; 4], 31, eq_w);
// one stub each for the real callee and for the reference's (same signature); by c_apply_s_fwd / c_apply_s_inv both are
// functions of (index mod 8, words) only
fn st_s(index: usize, w: [u32; 4]) -> [u32; 4] { uf_s::call((index % 8, w)) }
fn st_si(index: usize, w: [u32; 4]) -> [u32; 4] { uf_si::call((index % 8, w)) }
fn st_l(w: [u32; 4]) -> [u32; 4] { uf_l::call(w) }
fn st_li(w: [u32; 4]) -> [u32; 4] { uf_li::call(w) }
fn replay_all() {
    uf_s::replay_same_order();
    uf_si::replay_same_order();
    uf_l::replay_same_order();
    uf_li::replay_same_order();
}

pub fn any_serpent() -> Serpent { Serpent { round_keys: kani::any() } }

pub fn eq_rk(a: &RoundKeys, b: &[[u32; 4]; 33]) -> bool {
    let mut ok = true;
    let mut i = 0;
    while i < 33 {
        ok &= eq4(&a[i], &b[i]);
        i += 1;
    }
    ok
}
pub fn eq_bytes32(a: &[u8; 32], b: &[u8; 32]) -> bool {
    let mut ok = true;
    let mut i = 0;
    while i < 32 {
        ok &= a[i] == b[i];
        i += 1;
    }
    ok
}

// @ob name=c_xor props=C08,C20 fn=serpent::xor timeout=120
#[kani::proof]
#[kani::unwind(6)]
fn c_xor() {
    let a: [u32; 4] = kani::any();
    let b: [u32; 4] = kani::any();
    assert!(eq4(&xor(a, b), &r::xor4(a, b)));
}

// @ob name=c_read_write_words props=C08,C20 fn=serpent::read_words,serpent::write_words timeout=120
#[kani::proof]
#[kani::unwind(18)]
fn c_read_write_words() {
    let b: [u8; 16] = kani::any();
    assert!(eq4(&read_words(&b), &r::words_of(&b)));
    let w: [u32; 4] = kani::any();
    let mut out: [u8; 16] = kani::any();
    write_words(&w, &mut out);
    assert!(out == r::bytes_of(&w));
}

// expand_key, precondition of its only call site: len_bits = 8 * source.len(), 16 <= source.len() <= 32.
// "a single 1 bit and then zeros", for a SYMBOLIC key length.
// @ob name=c_expand_key props=C08,C11,C20 fn=serpent::expand_key timeout=300
#[kani::proof]
#[kani::unwind(34)]
fn c_expand_key() {
    let buf: [u8; 32] = kani::any();
    let n: usize = kani::any();
    kani::assume(16 <= n && n <= 32);
    kani::cover!(n == 16);
    kani::cover!(n == 31);
    kani::cover!(n == 32);
    let got = expand_key(&buf[..n], n * 8);
    assert!(eq_bytes32(&got, &r::pad_key(&buf, n)));
}

// The whole key schedule (padding, prekey recurrence, S-box selection (35 - i) mod 32, round-key layout) for a key
// of SYMBOLIC length 16..=32, against section 4 of the submission.
// @ob name=c_key_schedule props=C08,C20 fn=serpent::Serpent::new_from_slice uses=c_apply_s_fwd timeout=600
#[kani::proof]
#[kani::stub(crate::bitslice::apply_s, st_s)]
#[kani::stub(bcref::serpent::sbox, st_s)]
#[kani::unwind(141)]
fn c_key_schedule() {
    let buf: [u8; 32] = kani::any();
    let n: usize = kani::any();
    kani::assume(16 <= n && n <= 32);
    kani::cover!(n == 16);
    kani::cover!(n == 27);
    kani::cover!(n == 32);
    let c = <Serpent as KeyInit>::new_from_slice(&buf[..n]).unwrap();
    replay_all();
    assert!(eq_rk(&c.round_keys, &r::key_schedule(&r::pad_key(&buf, n))));
}

/// Over-approximation of "apply_s(i, .) / apply_s_inv(i, .) and linear_transform / linear_transform_inv are mutually
/// inverse": during the first block operation every call returns an unconstrained value and is recorded (direction,
/// S-box number, argument, result); during the second block operation the c-th call consults exactly ONE recorded
/// call -- the last one not yet consulted (a stack: the second operation undoes the layers of the first in reverse
/// order) -- and, if that call was the opposite direction with the same S-box number and produced the present
/// argument, returns that call's argument; otherwise an unconstrained value.  Every behaviour of the real functions
/// is included, by bitslice.rs l_apply_s_inverse / l_linear_transform_inverse (inverse pairs, both orders) and
/// c_apply_s_fwd / c_apply_s_inv (the S-box used depends on index mod 8 only).
pub mod ufs {
    use super::*;
    pub static mut S_FWD: [bool; 32] = [false; 32];
    pub static mut S_IDX: [usize; 32] = [0; 32];
    pub static mut S_A: [[u32; 4]; 32] = [[0; 4]; 32];
    pub static mut S_B: [[u32; 4]; 32] = [[0; 4]; 32];
    pub static mut S_CALLS: usize = 0;
    pub static mut L_FWD: [bool; 31] = [false; 31];
    pub static mut L_A: [[u32; 4]; 31] = [[0; 4]; 31];
    pub static mut L_B: [[u32; 4]; 31] = [[0; 4]; 31];
    pub static mut L_CALLS: usize = 0;
    #[allow(static_mut_refs)]
    fn s_any(fwd: bool, index: usize, w: Words) -> Words {
        unsafe {
            let c = S_CALLS;
            S_CALLS += 1;
            assert!(c < 64);
            let mut y: Words = kani::any();
            if c < 32 {
                S_FWD[c] = fwd; S_IDX[c] = index % 8; S_A[c] = w; S_B[c] = y;
            } else {
                let j = 63 - c;
                if S_FWD[j] != fwd && S_IDX[j] == index % 8 && eq4(&S_B[j], &w) { y = S_A[j]; }
            }
            y
        }
    }
    pub fn s_fwd(index: usize, w: Words) -> Words { s_any(true, index, w) }
    pub fn s_inv(index: usize, w: Words) -> Words { s_any(false, index, w) }
    #[allow(static_mut_refs)]
    fn l_any(fwd: bool, w: Words) -> Words {
        unsafe {
            let c = L_CALLS;
            L_CALLS += 1;
            assert!(c < 62);
            let mut y: Words = kani::any();
            if c < 31 {
                L_FWD[c] = fwd; L_A[c] = w; L_B[c] = y;
            } else {
                let j = 61 - c;
                if L_FWD[j] != fwd && eq4(&L_B[j], &w) { y = L_A[j]; }
            }
            y
        }
    }
    pub fn l_fwd(w: Words) -> Words { l_any(true, w) }
    pub fn l_inv(w: Words) -> Words { l_any(false, w) }
}

macro_rules! block_fns {
    ($enc:ident, $dec:ident, $rt:ident, $rtde:ident, $rtmono:ident, $unwind:expr, $cfgok:expr) => {
        #[kani::proof]
        #[kani::stub(crate::bitslice::apply_s, st_s)]
        #[kani::stub(bcref::serpent::sbox, st_s)]
        #[kani::stub(crate::bitslice::linear_transform, st_l)]
        #[kani::stub(bcref::serpent::lt, st_l)]
        #[kani::unwind($unwind)]
        fn $enc() {
            assert!($cfgok);
            let c = any_serpent();
            let b: [u8; 16] = kani::any();
            let mut blk = Array(b);
            cipher::BlockCipherEncrypt::encrypt_block(&c, &mut blk);
            replay_all();
            assert!(eq4(&r::words_of(&blk.0), &r::encrypt_words(&c.round_keys, r::words_of(&b))));
        }
        #[kani::proof]
        #[kani::stub(crate::bitslice::apply_s_inv, st_si)]
        #[kani::stub(bcref::serpent::sbox_inv, st_si)]
        #[kani::stub(crate::bitslice::linear_transform_inv, st_li)]
        #[kani::stub(bcref::serpent::lt_inv, st_li)]
        #[kani::unwind($unwind)]
        fn $dec() {
            assert!($cfgok);
            let c = any_serpent();
            let b: [u8; 16] = kani::any();
            let mut blk = Array(b);
            cipher::BlockCipherDecrypt::decrypt_block(&c, &mut blk);
            replay_all();
            assert!(eq4(&r::words_of(&blk.0), &r::decrypt_words(&c.round_keys, r::words_of(&b))));
        }
        // C01 for every value of the round keys, by composition of the inverse-pair lemmas: decrypt after encrypt ...
        #[kani::proof]
        #[kani::stub(crate::bitslice::apply_s, ufs::s_fwd)]
        #[kani::stub(crate::bitslice::apply_s_inv, ufs::s_inv)]
        #[kani::stub(crate::bitslice::linear_transform, ufs::l_fwd)]
        #[kani::stub(crate::bitslice::linear_transform_inv, ufs::l_inv)]
        #[kani::unwind($unwind)]
        fn $rt() {
            assert!($cfgok);
            let c = any_serpent();
            let b: [u8; 16] = kani::any();
            let mut blk = Array(b);
            cipher::BlockCipherEncrypt::encrypt_block(&c, &mut blk);
            cipher::BlockCipherDecrypt::decrypt_block(&c, &mut blk);
            assert!(blk.0 == b);
        }
        // ... and encrypt after decrypt
        #[kani::proof]
        #[kani::stub(crate::bitslice::apply_s, ufs::s_fwd)]
        #[kani::stub(crate::bitslice::apply_s_inv, ufs::s_inv)]
        #[kani::stub(crate::bitslice::linear_transform, ufs::l_fwd)]
        #[kani::stub(crate::bitslice::linear_transform_inv, ufs::l_inv)]
        #[kani::unwind($unwind)]
        fn $rtde() {
            assert!($cfgok);
            let c = any_serpent();
            let b: [u8; 16] = kani::any();
            let mut blk = Array(b);
            cipher::BlockCipherDecrypt::decrypt_block(&c, &mut blk);
            cipher::BlockCipherEncrypt::encrypt_block(&c, &mut blk);
            assert!(blk.0 == b);
        }
        // the same on the real code with nothing stubbed
        #[kani::proof]
        #[kani::unwind($unwind)]
        fn $rtmono() {
            assert!($cfgok);
            let c = any_serpent();
            let b: [u8; 16] = kani::any();
            let mut blk = Array(b);
            cipher::BlockCipherEncrypt::encrypt_block(&c, &mut blk);
            cipher::BlockCipherDecrypt::decrypt_block(&c, &mut blk);
            assert!(blk.0 == b);
        }
    };
}
// @ob name=c_encrypt_block_un props=C08,C20 fn=serpent::Serpent::encrypt_block uses=c_apply_s_fwd,c_linear_transform_fwd timeout=600
// @ob name=c_decrypt_block_un props=C08,C20 fn=serpent::Serpent::decrypt_block uses=c_apply_s_inv,c_linear_transform_inv timeout=600
// @ob name=l_roundtrip_ed_un props=C01 kind=lemma fn=serpent::Serpent::encrypt_block,serpent::Serpent::decrypt_block uses=l_apply_s_inverse,l_linear_transform_inverse,c_apply_s_fwd,c_apply_s_inv timeout=600
// @ob name=l_roundtrip_de_un props=C01 kind=lemma fn=serpent::Serpent::encrypt_block,serpent::Serpent::decrypt_block uses=l_apply_s_inverse,l_linear_transform_inverse,c_apply_s_fwd,c_apply_s_inv timeout=600
// @ob name=l_rtmono_un props=C01 kind=lemma tier=thorough fn=serpent::Serpent::encrypt_block,serpent::Serpent::decrypt_block timeout=3600
block_fns!(c_encrypt_block_un, c_decrypt_block_un, l_roundtrip_ed_un, l_roundtrip_de_un, l_rtmono_un, 67, cfg!(not(serpent_no_unroll)));
// the same three under --cfg serpent_no_unroll (the looped rounds)
// @ob name=c_encrypt_block_nu props=C08,C03,C20 cfg=no_unroll fn=serpent::Serpent::encrypt_block uses=c_apply_s_fwd,c_linear_transform_fwd timeout=600
// @ob name=c_decrypt_block_nu props=C08,C03,C20 cfg=no_unroll fn=serpent::Serpent::decrypt_block uses=c_apply_s_inv,c_linear_transform_inv timeout=600
// @ob name=l_roundtrip_ed_nu props=C01,C03 kind=lemma cfg=no_unroll fn=serpent::Serpent::encrypt_block,serpent::Serpent::decrypt_block uses=l_apply_s_inverse,l_linear_transform_inverse,c_apply_s_fwd,c_apply_s_inv timeout=600
// @ob name=l_roundtrip_de_nu props=C01,C03 kind=lemma cfg=no_unroll fn=serpent::Serpent::encrypt_block,serpent::Serpent::decrypt_block uses=l_apply_s_inverse,l_linear_transform_inverse,c_apply_s_fwd,c_apply_s_inv timeout=600
// @ob name=l_rtmono_nu props=C01,C03 kind=lemma tier=thorough cfg=no_unroll fn=serpent::Serpent::encrypt_block,serpent::Serpent::decrypt_block timeout=3600
block_fns!(c_encrypt_block_nu, c_decrypt_block_nu, l_roundtrip_ed_nu, l_roundtrip_de_nu, l_rtmono_nu, 67, cfg!(serpent_no_unroll));

// Public API on bytes: new_from_slice + encrypt_block / decrypt_block == Serpent of the submission for every key of
// SYMBOLIC length 16..=32 bytes and every block.
// expand_key is replaced by its contract (c_expand_key): it returns THE padded key of its argument.  So that both
// sides of the comparison start from the same 32 symbolic bytes, the padded key is named by one variable `padded`
// (assumed equal to the reference's pad_key(key, n)); the stub checks (asserts, not assumes) that this is the padded
// key of the slice it was actually given, and that expand_key's precondition holds at the call.
pub static mut PADDED: [u8; 32] = [0; 32];
#[allow(static_mut_refs)]
fn st_expand_key(source: &[u8], len_bits: usize) -> [u8; 32] {
    assert!(16 <= source.len() && source.len() <= 32 && len_bits == 8 * source.len());
    let mut tmp = [0u8; 32];
    let mut i = 0;
    while i < 32 {
        if i < source.len() { tmp[i] = source[i]; }
        i += 1;
    }
    let want = r::pad_key(&tmp, source.len());
    unsafe {
        assert!(eq_bytes32(&want, &PADDED));
        PADDED
    }
}
macro_rules! api_fns {
    ($enc:ident, $dec:ident, $unwind:expr, $cfgok:expr) => {
        #[kani::proof]
        #[kani::stub(expand_key, st_expand_key)]
        #[kani::stub(crate::bitslice::apply_s, st_s)]
        #[kani::stub(bcref::serpent::sbox, st_s)]
        #[kani::stub(crate::bitslice::linear_transform, st_l)]
        #[kani::stub(bcref::serpent::lt, st_l)]
        #[kani::unwind($unwind)]
        fn $enc() {
            assert!($cfgok);
            let buf: [u8; 32] = kani::any();
            let n: usize = kani::any();
            kani::assume(16 <= n && n <= 32);
            let padded: [u8; 32] = kani::any();
            kani::assume(eq_bytes32(&padded, &r::pad_key(&buf, n)));
            unsafe { PADDED = padded; }
            kani::cover!(n == 16);
            kani::cover!(n == 23);
            kani::cover!(n == 32);
            let b: [u8; 16] = kani::any();
            let c = <Serpent as KeyInit>::new_from_slice(&buf[..n]).unwrap();
            let mut blk = Array(b);
            cipher::BlockCipherEncrypt::encrypt_block(&c, &mut blk);
            replay_all();
            // = r::encrypt(&buf, n, &b) by its definition, with pad_key(buf, n) named `padded`
            assert!(blk.0 == r::encrypt_with(&r::key_schedule(&padded), &b));
        }
        #[kani::proof]
        #[kani::stub(expand_key, st_expand_key)]
        #[kani::stub(crate::bitslice::apply_s, st_s)]
        #[kani::stub(bcref::serpent::sbox, st_s)]
        #[kani::stub(crate::bitslice::apply_s_inv, st_si)]
        #[kani::stub(bcref::serpent::sbox_inv, st_si)]
        #[kani::stub(crate::bitslice::linear_transform_inv, st_li)]
        #[kani::stub(bcref::serpent::lt_inv, st_li)]
        #[kani::unwind($unwind)]
        fn $dec() {
            assert!($cfgok);
            let buf: [u8; 32] = kani::any();
            let n: usize = kani::any();
            kani::assume(16 <= n && n <= 32);
            let padded: [u8; 32] = kani::any();
            kani::assume(eq_bytes32(&padded, &r::pad_key(&buf, n)));
            unsafe { PADDED = padded; }
            kani::cover!(n == 16);
            kani::cover!(n == 23);
            kani::cover!(n == 32);
            let b: [u8; 16] = kani::any();
            let c = <Serpent as KeyInit>::new_from_slice(&buf[..n]).unwrap();
            let mut blk = Array(b);
            cipher::BlockCipherDecrypt::decrypt_block(&c, &mut blk);
            replay_all();
            assert!(blk.0 == r::decrypt_with(&r::key_schedule(&padded), &b));
        }
    };
}
// @ob name=c_api_enc_un props=C08,C20 fn=serpent::Serpent::new_from_slice,serpent::Serpent::encrypt_block uses=c_expand_key,c_apply_s_fwd,c_linear_transform_fwd timeout=900
// @ob name=c_api_dec_un props=C08,C20 fn=serpent::Serpent::new_from_slice,serpent::Serpent::decrypt_block uses=c_expand_key,c_apply_s_fwd,c_apply_s_inv,c_linear_transform_inv timeout=900
api_fns!(c_api_enc_un, c_api_dec_un, 141, cfg!(not(serpent_no_unroll)));
// @ob name=c_api_enc_nu props=C08,C03,C20 cfg=no_unroll fn=serpent::Serpent::new_from_slice,serpent::Serpent::encrypt_block uses=c_expand_key,c_apply_s_fwd,c_linear_transform_fwd timeout=900
// @ob name=c_api_dec_nu props=C08,C03,C20 cfg=no_unroll fn=serpent::Serpent::new_from_slice,serpent::Serpent::decrypt_block uses=c_expand_key,c_apply_s_fwd,c_apply_s_inv,c_linear_transform_inv timeout=900
api_fns!(c_api_enc_nu, c_api_dec_nu, 141, cfg!(serpent_no_unroll));
