// TEMPORARY mutation checks (sanity of harnesses): every obligation here must be REFUTED.
// @module file=cast6/src/lib.rs
use super::*;
use crate::__vp_cipher::*;
use bcref::cast6 as r;
use cipher::Array;

// forward_quad against the reference with two round keys exchanged
// @ob name=zz_quad_wrong_keys props=C08 fn=x timeout=900
#[kani::proof]
fn zz_quad_wrong_keys() {
    let mut beta: [u32; 4] = kani::any();
    let m: [u32; 4] = kani::any();
    let rot: [u8; 4] = kani::any();
    let want = r::q(beta, &rot, &[m[1], m[0], m[2], m[3]]);
    forward_quad(&mut beta, &m, &rot);
    assert!(eq4(&beta, &want));
}
// claim that the key schedule takes its rotation keys from B, D, F, H instead of A, C, E, G
// @ob name=zz_ks_wrong_selection props=C08 fn=x timeout=900
#[kani::proof]
#[kani::stub(forward_octave, st_w_real)]
#[kani::unwind(25)]
fn zz_ks_wrong_selection() {
    let key: [u8; 32] = kani::any();
    let mut c = any_cast6();
    c.key_schedule(&key);
    // masking keys are H, F, D, B: claim rotate[0] = 5 low bits of masking[3] (= B)
    assert!(c.rotate[0][0] == (c.masking[0][3] & 31) as u8);
}
// claim that 12-byte keys are accepted
// @ob name=zz_len_12 props=C11 fn=x timeout=900
#[kani::proof]
#[kani::stub(forward_octave, st_w_real)]
#[kani::unwind(34)]
fn zz_len_12() {
    let buf: [u8; 301] = kani::any();
    let n: usize = kani::any();
    kani::assume(n <= 300);
    let r = <Cast6 as KeyInit>::new_from_slice(&buf[..n]);
    assert!(r.is_ok() == (n == 12 || n == 16 || n == 20 || n == 24 || n == 28 || n == 32));
}
