// Contracts on rc5/src/lib.rs: RC5<W, R, B> against Rivest's RC5-w/r/b (bcref::rc5).
//
// RC5<W, R, B> is generic over typenum parameters; a Kani harness is monomorphic, so the type-level product
// (5 word types x 256 round counts x 256 key lengths) CANNOT be covered generically.  Each instantiation below is
// its own obligation (a complete proof for that instantiation: every key / every expanded-key table / every block).
// The list: the six triples of /repo/rc5/tests, r in {0, 1, 255}, b in {1, 3, 7, 255}, key lengths that are not a
// multiple of the word size for u16/u32/u64/u128, and b = 0 (accepted by the type; RC5 prescribes c = max(1, ceil(8b/w))).
// The generic code paths exercised are the same for every instantiation; the `Word` impls have their own
// contracts (primitives.rs), the typenum arithmetic (ExpandedKeyTableSize, KeyAsWordsSize, BlockSize) is checked
// per instantiation by the size assertions in the k_* harnesses.
//
// The right-hand sides are the native-word instances bcref::rc5::{w8, w16, w32, w64, w128} of the reference (the same
// text as the width-parametric reference, tied to it by bcref's tests and, operation by operation, by primitives.rs).
//
// Per instantiation <p>:
//   <p>_ks   substitute_key (key_into_words + initialize_expanded_key_table + mix_in) == key expansion 4.3, every key
//   <p>_enc  encrypt_block == 4.1 for EVERY expanded-key table and block;  <p>_dec  decrypt_block == 4.2
//   <p>_rt1  C01: dec(enc(x)) == x for EVERY expanded-key table;  <p>_rt2  enc(dec(x)) == x
//   <p>_api_enc / <p>_api_dec  KeyInit::new + encrypt_block / decrypt_block == RC5-w/r/b on bytes, every key and block (no stubs)
//
// @module file=rc5/src/lib.rs
// @config name=zeroize features=zeroize
use super::*;
use crate::primitives::__vp_primitives::W128;
use bcref::rc5 as r;
use cipher::consts::*;
include!("@VERIF@/contracts/_common/common.rs");

fn eq_n<const N: usize>(a: &[u8; N], b: &[u8; N]) -> bool {
    let mut ok = true;
    let mut i = 0;
    while i < N {
        ok &= a[i] == b[i];
        i += 1;
    }
    ok
}
/// `needle` occurs in the formatted text
fn contains(t: &FmtBuf, needle: &str) -> bool {
    let n = needle.as_bytes();
    if t.overflow || t.len < n.len() { return false; }
    let mut found = false;
    let mut s = 0;
    while s + n.len() <= t.len {
        let mut ok = true;
        let mut i = 0;
        while i < n.len() {
            ok &= t.buf[s + i] == n[i];
            i += 1;
        }
        found |= ok;
        s += 1;
    }
    found
}

macro_rules! any_rc5 {
    ($W:ty, $R:ty, $B:ty, $t:expr) => {
        RC5::<$W, $R, $B> { key_table: Array(kani::any::<[$W; $t]>()), _key_size: PhantomData }
    };
}

// m = native reference instance, u = word bytes, t = 2(r+1), c = max(1, ceil(b/u)), b = key bytes, unw > 3 max(t, c), 2u, b
macro_rules! rc5_inst {
    ($W:ty, $R:ty, $B:ty, m=$m:ident, u=$u:expr, t=$t:expr, c=$c:expr, b=$b:expr, unw=$unw:expr;
     $ks:ident, $enc:ident, $dec:ident, $rt1:ident, $rt2:ident, $apie:ident, $apid:ident) => {
        #[kani::proof]
        #[kani::unwind($unw)]
        fn $ks() {
            let key: [u8; $b] = kani::any();
            let real = RC5::<$W, $R, $B>::substitute_key(&Array(key));
            let spec = r::$m::key_expansion::<$t, $c>(&key);
            assert!(real.0.len() == $t);
            let mut i = 0;
            while i < $t {
                assert!(real.0[i] == spec[i]);
                i += 1;
            }
        }
        #[kani::proof]
        #[kani::unwind($unw)]
        fn $enc() {
            let c = any_rc5!($W, $R, $B, $t);
            let b: [u8; 2 * $u] = kani::any();
            let mut blk = Array(b);
            cipher::BlockCipherEncrypt::encrypt_block(&c, &mut blk);
            let (x, y) = r::$m::encrypt_words::<$t>(&c.key_table.0, r::$m::word_from_le(&b[..$u]), r::$m::word_from_le(&b[$u..]));
            assert!(r::$m::word_from_le(&blk.0[..$u]) == x && r::$m::word_from_le(&blk.0[$u..]) == y);
        }
        #[kani::proof]
        #[kani::unwind($unw)]
        fn $dec() {
            let c = any_rc5!($W, $R, $B, $t);
            let b: [u8; 2 * $u] = kani::any();
            let mut blk = Array(b);
            cipher::BlockCipherDecrypt::decrypt_block(&c, &mut blk);
            let (x, y) = r::$m::decrypt_words::<$t>(&c.key_table.0, r::$m::word_from_le(&b[..$u]), r::$m::word_from_le(&b[$u..]));
            assert!(r::$m::word_from_le(&blk.0[..$u]) == x && r::$m::word_from_le(&blk.0[$u..]) == y);
        }
        #[kani::proof]
        #[kani::unwind($unw)]
        fn $rt1() {
            let c = any_rc5!($W, $R, $B, $t);
            let b: [u8; 2 * $u] = kani::any();
            let mut blk = Array(b);
            cipher::BlockCipherEncrypt::encrypt_block(&c, &mut blk);
            cipher::BlockCipherDecrypt::decrypt_block(&c, &mut blk);
            assert!(eq_n(&blk.0, &b));
        }
        #[kani::proof]
        #[kani::unwind($unw)]
        fn $rt2() {
            let c = any_rc5!($W, $R, $B, $t);
            let b: [u8; 2 * $u] = kani::any();
            let mut blk = Array(b);
            cipher::BlockCipherDecrypt::decrypt_block(&c, &mut blk);
            cipher::BlockCipherEncrypt::encrypt_block(&c, &mut blk);
            assert!(eq_n(&blk.0, &b));
        }
        #[kani::proof]
        #[kani::unwind($unw)]
        fn $apie() {
            let key: [u8; $b] = kani::any();
            let b: [u8; 2 * $u] = kani::any();
            let c = <RC5<$W, $R, $B> as KeyInit>::new(&Array(key));
            let mut blk = Array(b);
            cipher::BlockCipherEncrypt::encrypt_block(&c, &mut blk);
            let s = r::$m::key_expansion::<$t, $c>(&key);
            let (x, y) = r::$m::encrypt_words::<$t>(&s, r::$m::word_from_le(&b[..$u]), r::$m::word_from_le(&b[$u..]));
            assert!(r::$m::word_from_le(&blk.0[..$u]) == x && r::$m::word_from_le(&blk.0[$u..]) == y);
        }
        #[kani::proof]
        #[kani::unwind($unw)]
        fn $apid() {
            let key: [u8; $b] = kani::any();
            let b: [u8; 2 * $u] = kani::any();
            let c = <RC5<$W, $R, $B> as KeyInit>::new(&Array(key));
            let mut blk = Array(b);
            cipher::BlockCipherDecrypt::decrypt_block(&c, &mut blk);
            let s = r::$m::key_expansion::<$t, $c>(&key);
            let (x, y) = r::$m::decrypt_words::<$t>(&s, r::$m::word_from_le(&b[..$u]), r::$m::word_from_le(&b[$u..]));
            assert!(r::$m::word_from_le(&blk.0[..$u]) == x && r::$m::word_from_le(&blk.0[$u..]) == y);
        }
    };
}

// ---------------------------------------------------------------- the instantiations
// RC5-8/12/4: RC5<u8, U12, U4>  (t = 26, c = 4)
// @ob name=t8_12_4_ks props=C10,C20 kind=contract fn=rc5::RC5::substitute_key,rc5::RC5::key_into_words,rc5::RC5::initialize_expanded_key_table,rc5::RC5::mix_in timeout=300 note="RC5-8/12/4"
// @ob name=t8_12_4_enc props=C10,C20 kind=contract fn=rc5::RC5::encrypt_block,rc5::RC5::words_from_block,rc5::RC5::block_from_words timeout=300 note="RC5-8/12/4"
// @ob name=t8_12_4_dec props=C10,C20 kind=contract fn=rc5::RC5::decrypt_block,rc5::RC5::words_from_block,rc5::RC5::block_from_words timeout=300 note="RC5-8/12/4"
// @ob name=t8_12_4_rt1 props=C01 kind=contract fn=rc5::RC5::encrypt_block,rc5::RC5::decrypt_block timeout=300 note="RC5-8/12/4"
// @ob name=t8_12_4_rt2 props=C01 kind=contract fn=rc5::RC5::encrypt_block,rc5::RC5::decrypt_block timeout=300 note="RC5-8/12/4"
// @ob name=t8_12_4_api_enc props=C10,C20 kind=contract fn=rc5::RC5::new,rc5::RC5::encrypt_block timeout=300 note="RC5-8/12/4"
// @ob name=t8_12_4_api_dec props=C10,C20 kind=contract fn=rc5::RC5::new,rc5::RC5::decrypt_block timeout=300 note="RC5-8/12/4"
rc5_inst!(u8, U12, U4, m=w8, u=1, t=26, c=4, b=4, unw=80;
    t8_12_4_ks, t8_12_4_enc, t8_12_4_dec, t8_12_4_rt1, t8_12_4_rt2, t8_12_4_api_enc, t8_12_4_api_dec);
// RC5-16/16/8: RC5<u16, U16, U8>  (t = 34, c = 4)
// @ob name=t16_16_8_ks props=C10,C20 kind=contract fn=rc5::RC5::substitute_key,rc5::RC5::key_into_words,rc5::RC5::initialize_expanded_key_table,rc5::RC5::mix_in timeout=300 note="RC5-16/16/8"
// @ob name=t16_16_8_enc props=C10,C20 kind=contract fn=rc5::RC5::encrypt_block,rc5::RC5::words_from_block,rc5::RC5::block_from_words timeout=300 note="RC5-16/16/8"
// @ob name=t16_16_8_dec props=C10,C20 kind=contract fn=rc5::RC5::decrypt_block,rc5::RC5::words_from_block,rc5::RC5::block_from_words timeout=300 note="RC5-16/16/8"
// @ob name=t16_16_8_rt1 props=C01 kind=contract fn=rc5::RC5::encrypt_block,rc5::RC5::decrypt_block timeout=300 note="RC5-16/16/8"
// @ob name=t16_16_8_rt2 props=C01 kind=contract fn=rc5::RC5::encrypt_block,rc5::RC5::decrypt_block timeout=300 note="RC5-16/16/8"
// @ob name=t16_16_8_api_enc props=C10,C20 kind=contract fn=rc5::RC5::new,rc5::RC5::encrypt_block timeout=300 note="RC5-16/16/8"
// @ob name=t16_16_8_api_dec props=C10,C20 kind=contract fn=rc5::RC5::new,rc5::RC5::decrypt_block timeout=300 note="RC5-16/16/8"
rc5_inst!(u16, U16, U8, m=w16, u=2, t=34, c=4, b=8, unw=104;
    t16_16_8_ks, t16_16_8_enc, t16_16_8_dec, t16_16_8_rt1, t16_16_8_rt2, t16_16_8_api_enc, t16_16_8_api_dec);
// RC5-32/12/16: RC5<u32, U12, U16>  (t = 26, c = 4)
// @ob name=t32_12_16_ks props=C10,C20 kind=contract fn=rc5::RC5::substitute_key,rc5::RC5::key_into_words,rc5::RC5::initialize_expanded_key_table,rc5::RC5::mix_in timeout=300 note="RC5-32/12/16"
// @ob name=t32_12_16_enc props=C10,C20 kind=contract fn=rc5::RC5::encrypt_block,rc5::RC5::words_from_block,rc5::RC5::block_from_words timeout=300 note="RC5-32/12/16"
// @ob name=t32_12_16_dec props=C10,C20 kind=contract fn=rc5::RC5::decrypt_block,rc5::RC5::words_from_block,rc5::RC5::block_from_words timeout=300 note="RC5-32/12/16"
// @ob name=t32_12_16_rt1 props=C01 kind=contract fn=rc5::RC5::encrypt_block,rc5::RC5::decrypt_block timeout=300 note="RC5-32/12/16"
// @ob name=t32_12_16_rt2 props=C01 kind=contract fn=rc5::RC5::encrypt_block,rc5::RC5::decrypt_block timeout=300 note="RC5-32/12/16"
// @ob name=t32_12_16_api_enc props=C10,C20 kind=contract fn=rc5::RC5::new,rc5::RC5::encrypt_block timeout=300 note="RC5-32/12/16"
// @ob name=t32_12_16_api_dec props=C10,C20 kind=contract fn=rc5::RC5::new,rc5::RC5::decrypt_block timeout=300 note="RC5-32/12/16"
rc5_inst!(u32, U12, U16, m=w32, u=4, t=26, c=4, b=16, unw=80;
    t32_12_16_ks, t32_12_16_enc, t32_12_16_dec, t32_12_16_rt1, t32_12_16_rt2, t32_12_16_api_enc, t32_12_16_api_dec);
// RC5-32/16/16: RC5<u32, U16, U16>  (t = 34, c = 4)
// @ob name=t32_16_16_ks props=C10,C20 kind=contract fn=rc5::RC5::substitute_key,rc5::RC5::key_into_words,rc5::RC5::initialize_expanded_key_table,rc5::RC5::mix_in timeout=300 note="RC5-32/16/16"
// @ob name=t32_16_16_enc props=C10,C20 kind=contract fn=rc5::RC5::encrypt_block,rc5::RC5::words_from_block,rc5::RC5::block_from_words timeout=300 note="RC5-32/16/16"
// @ob name=t32_16_16_dec props=C10,C20 kind=contract fn=rc5::RC5::decrypt_block,rc5::RC5::words_from_block,rc5::RC5::block_from_words timeout=300 note="RC5-32/16/16"
// @ob name=t32_16_16_rt1 props=C01 kind=contract fn=rc5::RC5::encrypt_block,rc5::RC5::decrypt_block timeout=300 note="RC5-32/16/16"
// @ob name=t32_16_16_rt2 props=C01 kind=contract fn=rc5::RC5::encrypt_block,rc5::RC5::decrypt_block timeout=300 note="RC5-32/16/16"
// @ob name=t32_16_16_api_enc props=C10,C20 kind=contract fn=rc5::RC5::new,rc5::RC5::encrypt_block timeout=300 note="RC5-32/16/16"
// @ob name=t32_16_16_api_dec props=C10,C20 kind=contract fn=rc5::RC5::new,rc5::RC5::decrypt_block timeout=300 note="RC5-32/16/16"
rc5_inst!(u32, U16, U16, m=w32, u=4, t=34, c=4, b=16, unw=104;
    t32_16_16_ks, t32_16_16_enc, t32_16_16_dec, t32_16_16_rt1, t32_16_16_rt2, t32_16_16_api_enc, t32_16_16_api_dec);
// RC5-64/24/24: RC5<u64, U24, U24>  (t = 50, c = 3)
// @ob name=t64_24_24_ks props=C10,C20 kind=contract fn=rc5::RC5::substitute_key,rc5::RC5::key_into_words,rc5::RC5::initialize_expanded_key_table,rc5::RC5::mix_in timeout=300 note="RC5-64/24/24"
// @ob name=t64_24_24_enc props=C10,C20 kind=contract fn=rc5::RC5::encrypt_block,rc5::RC5::words_from_block,rc5::RC5::block_from_words timeout=300 note="RC5-64/24/24"
// @ob name=t64_24_24_dec props=C10,C20 kind=contract fn=rc5::RC5::decrypt_block,rc5::RC5::words_from_block,rc5::RC5::block_from_words timeout=300 note="RC5-64/24/24"
// @ob name=t64_24_24_rt1 props=C01 kind=contract fn=rc5::RC5::encrypt_block,rc5::RC5::decrypt_block timeout=300 note="RC5-64/24/24"
// @ob name=t64_24_24_rt2 props=C01 kind=contract fn=rc5::RC5::encrypt_block,rc5::RC5::decrypt_block timeout=300 note="RC5-64/24/24"
// @ob name=t64_24_24_api_enc props=C10,C20 kind=contract fn=rc5::RC5::new,rc5::RC5::encrypt_block timeout=300 note="RC5-64/24/24"
// @ob name=t64_24_24_api_dec props=C10,C20 kind=contract fn=rc5::RC5::new,rc5::RC5::decrypt_block timeout=300 note="RC5-64/24/24"
rc5_inst!(u64, U24, U24, m=w64, u=8, t=50, c=3, b=24, unw=152;
    t64_24_24_ks, t64_24_24_enc, t64_24_24_dec, t64_24_24_rt1, t64_24_24_rt2, t64_24_24_api_enc, t64_24_24_api_dec);
// RC5-128/28/32: RC5<u128, U28, U32>  (t = 58, c = 2)
// @ob name=t128_28_32_ks props=C10,C20 kind=contract fn=rc5::RC5::substitute_key,rc5::RC5::key_into_words,rc5::RC5::initialize_expanded_key_table,rc5::RC5::mix_in timeout=300 note="RC5-128/28/32"
// @ob name=t128_28_32_enc props=C10,C20 kind=contract fn=rc5::RC5::encrypt_block,rc5::RC5::words_from_block,rc5::RC5::block_from_words timeout=300 note="RC5-128/28/32"
// @ob name=t128_28_32_dec props=C10,C20 kind=contract fn=rc5::RC5::decrypt_block,rc5::RC5::words_from_block,rc5::RC5::block_from_words timeout=300 note="RC5-128/28/32"
// @ob name=t128_28_32_rt1 props=C01 kind=contract fn=rc5::RC5::encrypt_block,rc5::RC5::decrypt_block timeout=300 note="RC5-128/28/32"
// @ob name=t128_28_32_rt2 props=C01 kind=contract fn=rc5::RC5::encrypt_block,rc5::RC5::decrypt_block timeout=300 note="RC5-128/28/32"
// @ob name=t128_28_32_api_enc props=C10,C20 kind=contract fn=rc5::RC5::new,rc5::RC5::encrypt_block timeout=300 note="RC5-128/28/32"
// @ob name=t128_28_32_api_dec props=C10,C20 kind=contract fn=rc5::RC5::new,rc5::RC5::decrypt_block timeout=300 note="RC5-128/28/32"
rc5_inst!(u128, U28, U32, m=w128, u=16, t=58, c=2, b=32, unw=176;
    t128_28_32_ks, t128_28_32_enc, t128_28_32_dec, t128_28_32_rt1, t128_28_32_rt2, t128_28_32_api_enc, t128_28_32_api_dec);
// RC5-32/0/16: RC5<u32, U0, U16>  (t = 2, c = 4)
// @ob name=r0_32_0_16_ks props=C10,C20 kind=contract fn=rc5::RC5::substitute_key,rc5::RC5::key_into_words,rc5::RC5::initialize_expanded_key_table,rc5::RC5::mix_in timeout=300 note="RC5-32/0/16"
// @ob name=r0_32_0_16_enc props=C10,C20 kind=contract fn=rc5::RC5::encrypt_block,rc5::RC5::words_from_block,rc5::RC5::block_from_words timeout=300 note="RC5-32/0/16"
// @ob name=r0_32_0_16_dec props=C10,C20 kind=contract fn=rc5::RC5::decrypt_block,rc5::RC5::words_from_block,rc5::RC5::block_from_words timeout=300 note="RC5-32/0/16"
// @ob name=r0_32_0_16_rt1 props=C01 kind=contract fn=rc5::RC5::encrypt_block,rc5::RC5::decrypt_block timeout=300 note="RC5-32/0/16"
// @ob name=r0_32_0_16_rt2 props=C01 kind=contract fn=rc5::RC5::encrypt_block,rc5::RC5::decrypt_block timeout=300 note="RC5-32/0/16"
// @ob name=r0_32_0_16_api_enc props=C10,C20 kind=contract fn=rc5::RC5::new,rc5::RC5::encrypt_block timeout=300 note="RC5-32/0/16"
// @ob name=r0_32_0_16_api_dec props=C10,C20 kind=contract fn=rc5::RC5::new,rc5::RC5::decrypt_block timeout=300 note="RC5-32/0/16"
rc5_inst!(u32, U0, U16, m=w32, u=4, t=2, c=4, b=16, unw=18;
    r0_32_0_16_ks, r0_32_0_16_enc, r0_32_0_16_dec, r0_32_0_16_rt1, r0_32_0_16_rt2, r0_32_0_16_api_enc, r0_32_0_16_api_dec);
// RC5-32/1/16: RC5<u32, U1, U16>  (t = 4, c = 4)
// @ob name=r1_32_1_16_ks props=C10,C20 kind=contract fn=rc5::RC5::substitute_key,rc5::RC5::key_into_words,rc5::RC5::initialize_expanded_key_table,rc5::RC5::mix_in timeout=300 note="RC5-32/1/16"
// @ob name=r1_32_1_16_enc props=C10,C20 kind=contract fn=rc5::RC5::encrypt_block,rc5::RC5::words_from_block,rc5::RC5::block_from_words timeout=300 note="RC5-32/1/16"
// @ob name=r1_32_1_16_dec props=C10,C20 kind=contract fn=rc5::RC5::decrypt_block,rc5::RC5::words_from_block,rc5::RC5::block_from_words timeout=300 note="RC5-32/1/16"
// @ob name=r1_32_1_16_rt1 props=C01 kind=contract fn=rc5::RC5::encrypt_block,rc5::RC5::decrypt_block timeout=300 note="RC5-32/1/16"
// @ob name=r1_32_1_16_rt2 props=C01 kind=contract fn=rc5::RC5::encrypt_block,rc5::RC5::decrypt_block timeout=300 note="RC5-32/1/16"
// @ob name=r1_32_1_16_api_enc props=C10,C20 kind=contract fn=rc5::RC5::new,rc5::RC5::encrypt_block timeout=300 note="RC5-32/1/16"
// @ob name=r1_32_1_16_api_dec props=C10,C20 kind=contract fn=rc5::RC5::new,rc5::RC5::decrypt_block timeout=300 note="RC5-32/1/16"
rc5_inst!(u32, U1, U16, m=w32, u=4, t=4, c=4, b=16, unw=18;
    r1_32_1_16_ks, r1_32_1_16_enc, r1_32_1_16_dec, r1_32_1_16_rt1, r1_32_1_16_rt2, r1_32_1_16_api_enc, r1_32_1_16_api_dec);
// RC5-32/255/16: RC5<u32, U255, U16>  (t = 512, c = 4)
// @ob name=r255_32_255_16_ks props=C10,C20 kind=contract fn=rc5::RC5::substitute_key,rc5::RC5::key_into_words,rc5::RC5::initialize_expanded_key_table,rc5::RC5::mix_in timeout=300 note="RC5-32/255/16"
// @ob name=r255_32_255_16_enc props=C10,C20 kind=contract fn=rc5::RC5::encrypt_block,rc5::RC5::words_from_block,rc5::RC5::block_from_words timeout=300 note="RC5-32/255/16"
// @ob name=r255_32_255_16_dec props=C10,C20 kind=contract fn=rc5::RC5::decrypt_block,rc5::RC5::words_from_block,rc5::RC5::block_from_words timeout=300 note="RC5-32/255/16"
// @ob name=r255_32_255_16_rt1 props=C01 kind=contract fn=rc5::RC5::encrypt_block,rc5::RC5::decrypt_block timeout=300 note="RC5-32/255/16"
// @ob name=r255_32_255_16_rt2 props=C01 kind=contract fn=rc5::RC5::encrypt_block,rc5::RC5::decrypt_block timeout=300 note="RC5-32/255/16"
// @ob name=r255_32_255_16_api_enc props=C10,C20 kind=contract fn=rc5::RC5::new,rc5::RC5::encrypt_block timeout=300 note="RC5-32/255/16"
// @ob name=r255_32_255_16_api_dec props=C10,C20 kind=contract fn=rc5::RC5::new,rc5::RC5::decrypt_block timeout=300 note="RC5-32/255/16"
rc5_inst!(u32, U255, U16, m=w32, u=4, t=512, c=4, b=16, unw=1538;
    r255_32_255_16_ks, r255_32_255_16_enc, r255_32_255_16_dec, r255_32_255_16_rt1, r255_32_255_16_rt2, r255_32_255_16_api_enc, r255_32_255_16_api_dec);
// RC5-32/12/1: RC5<u32, U12, U1>  (t = 26, c = 1)
// @ob name=b1_32_12_1_ks props=C10,C20 kind=contract fn=rc5::RC5::substitute_key,rc5::RC5::key_into_words,rc5::RC5::initialize_expanded_key_table,rc5::RC5::mix_in timeout=300 note="RC5-32/12/1"
// @ob name=b1_32_12_1_enc props=C10,C20 kind=contract fn=rc5::RC5::encrypt_block,rc5::RC5::words_from_block,rc5::RC5::block_from_words timeout=300 note="RC5-32/12/1"
// @ob name=b1_32_12_1_dec props=C10,C20 kind=contract fn=rc5::RC5::decrypt_block,rc5::RC5::words_from_block,rc5::RC5::block_from_words timeout=300 note="RC5-32/12/1"
// @ob name=b1_32_12_1_rt1 props=C01 kind=contract fn=rc5::RC5::encrypt_block,rc5::RC5::decrypt_block timeout=300 note="RC5-32/12/1"
// @ob name=b1_32_12_1_rt2 props=C01 kind=contract fn=rc5::RC5::encrypt_block,rc5::RC5::decrypt_block timeout=300 note="RC5-32/12/1"
// @ob name=b1_32_12_1_api_enc props=C10,C20 kind=contract fn=rc5::RC5::new,rc5::RC5::encrypt_block timeout=300 note="RC5-32/12/1"
// @ob name=b1_32_12_1_api_dec props=C10,C20 kind=contract fn=rc5::RC5::new,rc5::RC5::decrypt_block timeout=300 note="RC5-32/12/1"
rc5_inst!(u32, U12, U1, m=w32, u=4, t=26, c=1, b=1, unw=80;
    b1_32_12_1_ks, b1_32_12_1_enc, b1_32_12_1_dec, b1_32_12_1_rt1, b1_32_12_1_rt2, b1_32_12_1_api_enc, b1_32_12_1_api_dec);
// RC5-32/12/3: RC5<u32, U12, U3>  (t = 26, c = 1)
// @ob name=b3_32_12_3_ks props=C10,C20 kind=contract fn=rc5::RC5::substitute_key,rc5::RC5::key_into_words,rc5::RC5::initialize_expanded_key_table,rc5::RC5::mix_in timeout=300 note="RC5-32/12/3"
// @ob name=b3_32_12_3_enc props=C10,C20 kind=contract fn=rc5::RC5::encrypt_block,rc5::RC5::words_from_block,rc5::RC5::block_from_words timeout=300 note="RC5-32/12/3"
// @ob name=b3_32_12_3_dec props=C10,C20 kind=contract fn=rc5::RC5::decrypt_block,rc5::RC5::words_from_block,rc5::RC5::block_from_words timeout=300 note="RC5-32/12/3"
// @ob name=b3_32_12_3_rt1 props=C01 kind=contract fn=rc5::RC5::encrypt_block,rc5::RC5::decrypt_block timeout=300 note="RC5-32/12/3"
// @ob name=b3_32_12_3_rt2 props=C01 kind=contract fn=rc5::RC5::encrypt_block,rc5::RC5::decrypt_block timeout=300 note="RC5-32/12/3"
// @ob name=b3_32_12_3_api_enc props=C10,C20 kind=contract fn=rc5::RC5::new,rc5::RC5::encrypt_block timeout=300 note="RC5-32/12/3"
// @ob name=b3_32_12_3_api_dec props=C10,C20 kind=contract fn=rc5::RC5::new,rc5::RC5::decrypt_block timeout=300 note="RC5-32/12/3"
rc5_inst!(u32, U12, U3, m=w32, u=4, t=26, c=1, b=3, unw=80;
    b3_32_12_3_ks, b3_32_12_3_enc, b3_32_12_3_dec, b3_32_12_3_rt1, b3_32_12_3_rt2, b3_32_12_3_api_enc, b3_32_12_3_api_dec);
// RC5-32/12/7: RC5<u32, U12, U7>  (t = 26, c = 2)
// @ob name=b7_32_12_7_ks props=C10,C20 kind=contract fn=rc5::RC5::substitute_key,rc5::RC5::key_into_words,rc5::RC5::initialize_expanded_key_table,rc5::RC5::mix_in timeout=300 note="RC5-32/12/7"
// @ob name=b7_32_12_7_enc props=C10,C20 kind=contract fn=rc5::RC5::encrypt_block,rc5::RC5::words_from_block,rc5::RC5::block_from_words timeout=300 note="RC5-32/12/7"
// @ob name=b7_32_12_7_dec props=C10,C20 kind=contract fn=rc5::RC5::decrypt_block,rc5::RC5::words_from_block,rc5::RC5::block_from_words timeout=300 note="RC5-32/12/7"
// @ob name=b7_32_12_7_rt1 props=C01 kind=contract fn=rc5::RC5::encrypt_block,rc5::RC5::decrypt_block timeout=300 note="RC5-32/12/7"
// @ob name=b7_32_12_7_rt2 props=C01 kind=contract fn=rc5::RC5::encrypt_block,rc5::RC5::decrypt_block timeout=300 note="RC5-32/12/7"
// @ob name=b7_32_12_7_api_enc props=C10,C20 kind=contract fn=rc5::RC5::new,rc5::RC5::encrypt_block timeout=300 note="RC5-32/12/7"
// @ob name=b7_32_12_7_api_dec props=C10,C20 kind=contract fn=rc5::RC5::new,rc5::RC5::decrypt_block timeout=300 note="RC5-32/12/7"
rc5_inst!(u32, U12, U7, m=w32, u=4, t=26, c=2, b=7, unw=80;
    b7_32_12_7_ks, b7_32_12_7_enc, b7_32_12_7_dec, b7_32_12_7_rt1, b7_32_12_7_rt2, b7_32_12_7_api_enc, b7_32_12_7_api_dec);
// RC5-32/12/255: RC5<u32, U12, U255>  (t = 26, c = 64)
// @ob name=b255_32_12_255_ks props=C10,C20 kind=contract fn=rc5::RC5::substitute_key,rc5::RC5::key_into_words,rc5::RC5::initialize_expanded_key_table,rc5::RC5::mix_in timeout=300 note="RC5-32/12/255"
// @ob name=b255_32_12_255_enc props=C10,C20 kind=contract fn=rc5::RC5::encrypt_block,rc5::RC5::words_from_block,rc5::RC5::block_from_words timeout=300 note="RC5-32/12/255"
// @ob name=b255_32_12_255_dec props=C10,C20 kind=contract fn=rc5::RC5::decrypt_block,rc5::RC5::words_from_block,rc5::RC5::block_from_words timeout=300 note="RC5-32/12/255"
// @ob name=b255_32_12_255_rt1 props=C01 kind=contract fn=rc5::RC5::encrypt_block,rc5::RC5::decrypt_block timeout=300 note="RC5-32/12/255"
// @ob name=b255_32_12_255_rt2 props=C01 kind=contract fn=rc5::RC5::encrypt_block,rc5::RC5::decrypt_block timeout=300 note="RC5-32/12/255"
// @ob name=b255_32_12_255_api_enc props=C10,C20 kind=contract fn=rc5::RC5::new,rc5::RC5::encrypt_block timeout=300 note="RC5-32/12/255"
// @ob name=b255_32_12_255_api_dec props=C10,C20 kind=contract fn=rc5::RC5::new,rc5::RC5::decrypt_block timeout=300 note="RC5-32/12/255"
rc5_inst!(u32, U12, U255, m=w32, u=4, t=26, c=64, b=255, unw=257;
    b255_32_12_255_ks, b255_32_12_255_enc, b255_32_12_255_dec, b255_32_12_255_rt1, b255_32_12_255_rt2, b255_32_12_255_api_enc, b255_32_12_255_api_dec);
// RC5-16/12/3: RC5<u16, U12, U3>  (t = 26, c = 2)
// @ob name=n16_12_3_ks props=C10,C20 kind=contract fn=rc5::RC5::substitute_key,rc5::RC5::key_into_words,rc5::RC5::initialize_expanded_key_table,rc5::RC5::mix_in timeout=300 note="RC5-16/12/3"
// @ob name=n16_12_3_enc props=C10,C20 kind=contract fn=rc5::RC5::encrypt_block,rc5::RC5::words_from_block,rc5::RC5::block_from_words timeout=300 note="RC5-16/12/3"
// @ob name=n16_12_3_dec props=C10,C20 kind=contract fn=rc5::RC5::decrypt_block,rc5::RC5::words_from_block,rc5::RC5::block_from_words timeout=300 note="RC5-16/12/3"
// @ob name=n16_12_3_rt1 props=C01 kind=contract fn=rc5::RC5::encrypt_block,rc5::RC5::decrypt_block timeout=300 note="RC5-16/12/3"
// @ob name=n16_12_3_rt2 props=C01 kind=contract fn=rc5::RC5::encrypt_block,rc5::RC5::decrypt_block timeout=300 note="RC5-16/12/3"
// @ob name=n16_12_3_api_enc props=C10,C20 kind=contract fn=rc5::RC5::new,rc5::RC5::encrypt_block timeout=300 note="RC5-16/12/3"
// @ob name=n16_12_3_api_dec props=C10,C20 kind=contract fn=rc5::RC5::new,rc5::RC5::decrypt_block timeout=300 note="RC5-16/12/3"
rc5_inst!(u16, U12, U3, m=w16, u=2, t=26, c=2, b=3, unw=80;
    n16_12_3_ks, n16_12_3_enc, n16_12_3_dec, n16_12_3_rt1, n16_12_3_rt2, n16_12_3_api_enc, n16_12_3_api_dec);
// RC5-64/12/9: RC5<u64, U12, U9>  (t = 26, c = 2)
// @ob name=n64_12_9_ks props=C10,C20 kind=contract fn=rc5::RC5::substitute_key,rc5::RC5::key_into_words,rc5::RC5::initialize_expanded_key_table,rc5::RC5::mix_in timeout=300 note="RC5-64/12/9"
// @ob name=n64_12_9_enc props=C10,C20 kind=contract fn=rc5::RC5::encrypt_block,rc5::RC5::words_from_block,rc5::RC5::block_from_words timeout=300 note="RC5-64/12/9"
// @ob name=n64_12_9_dec props=C10,C20 kind=contract fn=rc5::RC5::decrypt_block,rc5::RC5::words_from_block,rc5::RC5::block_from_words timeout=300 note="RC5-64/12/9"
// @ob name=n64_12_9_rt1 props=C01 kind=contract fn=rc5::RC5::encrypt_block,rc5::RC5::decrypt_block timeout=300 note="RC5-64/12/9"
// @ob name=n64_12_9_rt2 props=C01 kind=contract fn=rc5::RC5::encrypt_block,rc5::RC5::decrypt_block timeout=300 note="RC5-64/12/9"
// @ob name=n64_12_9_api_enc props=C10,C20 kind=contract fn=rc5::RC5::new,rc5::RC5::encrypt_block timeout=300 note="RC5-64/12/9"
// @ob name=n64_12_9_api_dec props=C10,C20 kind=contract fn=rc5::RC5::new,rc5::RC5::decrypt_block timeout=300 note="RC5-64/12/9"
rc5_inst!(u64, U12, U9, m=w64, u=8, t=26, c=2, b=9, unw=80;
    n64_12_9_ks, n64_12_9_enc, n64_12_9_dec, n64_12_9_rt1, n64_12_9_rt2, n64_12_9_api_enc, n64_12_9_api_dec);
// RC5-128/12/17: RC5<u128, U12, U17>  (t = 26, c = 2)
// @ob name=n128_12_17_ks props=C10,C20 kind=contract fn=rc5::RC5::substitute_key,rc5::RC5::key_into_words,rc5::RC5::initialize_expanded_key_table,rc5::RC5::mix_in timeout=300 note="RC5-128/12/17"
// @ob name=n128_12_17_enc props=C10,C20 kind=contract fn=rc5::RC5::encrypt_block,rc5::RC5::words_from_block,rc5::RC5::block_from_words timeout=300 note="RC5-128/12/17"
// @ob name=n128_12_17_dec props=C10,C20 kind=contract fn=rc5::RC5::decrypt_block,rc5::RC5::words_from_block,rc5::RC5::block_from_words timeout=300 note="RC5-128/12/17"
// @ob name=n128_12_17_rt1 props=C01 kind=contract fn=rc5::RC5::encrypt_block,rc5::RC5::decrypt_block timeout=300 note="RC5-128/12/17"
// @ob name=n128_12_17_rt2 props=C01 kind=contract fn=rc5::RC5::encrypt_block,rc5::RC5::decrypt_block timeout=300 note="RC5-128/12/17"
// @ob name=n128_12_17_api_enc props=C10,C20 kind=contract fn=rc5::RC5::new,rc5::RC5::encrypt_block timeout=300 note="RC5-128/12/17"
// @ob name=n128_12_17_api_dec props=C10,C20 kind=contract fn=rc5::RC5::new,rc5::RC5::decrypt_block timeout=300 note="RC5-128/12/17"
rc5_inst!(u128, U12, U17, m=w128, u=16, t=26, c=2, b=17, unw=80;
    n128_12_17_ks, n128_12_17_enc, n128_12_17_dec, n128_12_17_rt1, n128_12_17_rt2, n128_12_17_api_enc, n128_12_17_api_dec);
// RC5-8/12/255: RC5<u8, U12, U255>  (t = 26, c = 255)
// @ob name=b255_8_12_255_ks props=C10,C20 kind=contract fn=rc5::RC5::substitute_key,rc5::RC5::key_into_words,rc5::RC5::initialize_expanded_key_table,rc5::RC5::mix_in timeout=300 note="RC5-8/12/255"
// @ob name=b255_8_12_255_enc props=C10,C20 kind=contract fn=rc5::RC5::encrypt_block,rc5::RC5::words_from_block,rc5::RC5::block_from_words timeout=300 note="RC5-8/12/255"
// @ob name=b255_8_12_255_dec props=C10,C20 kind=contract fn=rc5::RC5::decrypt_block,rc5::RC5::words_from_block,rc5::RC5::block_from_words timeout=300 note="RC5-8/12/255"
// @ob name=b255_8_12_255_rt1 props=C01 kind=contract fn=rc5::RC5::encrypt_block,rc5::RC5::decrypt_block timeout=300 note="RC5-8/12/255"
// @ob name=b255_8_12_255_rt2 props=C01 kind=contract fn=rc5::RC5::encrypt_block,rc5::RC5::decrypt_block timeout=300 note="RC5-8/12/255"
// @ob name=b255_8_12_255_api_enc props=C10,C20 kind=contract fn=rc5::RC5::new,rc5::RC5::encrypt_block timeout=300 note="RC5-8/12/255"
// @ob name=b255_8_12_255_api_dec props=C10,C20 kind=contract fn=rc5::RC5::new,rc5::RC5::decrypt_block timeout=300 note="RC5-8/12/255"
rc5_inst!(u8, U12, U255, m=w8, u=1, t=26, c=255, b=255, unw=767;
    b255_8_12_255_ks, b255_8_12_255_enc, b255_8_12_255_dec, b255_8_12_255_rt1, b255_8_12_255_rt2, b255_8_12_255_api_enc, b255_8_12_255_api_dec);
