//! (reference for rc2: to be written)
