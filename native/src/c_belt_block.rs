//! belt-block: BeltBlock and belt_block_raw against STB 34.101.31 belt-block (bcref::belt), C07; the wide-block pair
//! belt_wblock_enc / belt_wblock_dec: inverse in both orders (C01), conformance and rejection of short input (C18).
//! BeltBlock has no Debug impl (nothing to check for the Debug clause of C19).
use crate::generic::*;
use crate::util::*;
use bcref::belt as r;
use belt_block::{belt_block_raw, belt_wblock_dec, belt_wblock_enc};

desc!(DBelt: belt_block::BeltBlock, "belt-block", "BeltBlock", [32], "C07", [clone, alg], names ["BeltBlock"], alg ["belt"],
    |k, b, dec| Some(if dec { r::decrypt(&arr(k), &arr(b)) } else { r::encrypt(&arr(k), &arr(b)) }.to_vec()));

fn raw() {
    scope("belt-block", "belt_block_raw");
    set_prop("C07");
    let mut rng = Rng::for_label("C07/belt/raw");
    for _ in 0..iters() {
        let key = rng.bytes(32);
        let x = rng.bytes(16);
        input(&[("key", &key), ("block", &x)]);
        guard("belt_block_raw", || {
            let theta: [u32; 8] = r::words::<8>(&key);
            let xw: [u32; 4] = r::words::<4>(&x);
            let got = belt_block_raw(xw, &theta);
            let w = r::encrypt_words(xw, &theta);
            if got != w {
                fail("belt_block_raw differs from belt-block", &hex_u32s(&got), &hex_u32s(&w));
            }
        });
    }
}

/// lengths for the wide block: every residue mod 16, short, long (beyond 2033 bytes the round counter exceeds one octet)
fn wide_len(rng: &mut Rng, lo: usize, hi: usize) -> usize {
    match rng.below(10) {
        0 => lo,
        1 => rng.range(lo, (lo + 17).min(hi)),
        2 => (16 * rng.range(lo / 16 + 1, hi / 16)).min(hi),
        3 => rng.range(2033usize.min(hi), hi),
        4 => rng.range(2033usize.min(hi), (2033 + 40).min(hi)),
        _ => rng.range(lo, hi),
    }
}

fn wide_roundtrip() {
    scope("belt-block", "belt_wblock_enc/belt_wblock_dec");
    set_prop("C01");
    let mut rng = Rng::for_label("C01/belt/wblock");
    for _ in 0..(iters() / 2).max(100) {
        let key = rng.bytes(32);
        let len = wide_len(&mut rng, 32, 4200);
        let x = rng.plain(len);
        input(&[("key", &key), ("data", &x)]);
        input_add_str("len", &len.to_string());
        guard("wide-block round trip", || {
            let theta: [u32; 8] = r::words::<8>(&key);
            let mut y = x.clone();
            if belt_wblock_enc(&mut y, &theta).is_err() {
                return; // acceptance is C18's business
            }
            let mut z = y.clone();
            if belt_wblock_dec(&mut z, &theta).is_ok() {
                check_eq("belt_wblock_dec(belt_wblock_enc(x)) != x", &z, &x);
            }
            let mut y = x.clone();
            if belt_wblock_dec(&mut y, &theta).is_err() {
                return;
            }
            let mut z = y.clone();
            if belt_wblock_enc(&mut z, &theta).is_ok() {
                check_eq("belt_wblock_enc(belt_wblock_dec(x)) != x", &z, &x);
            }
        });
    }
}

fn wide_conformance() {
    scope("belt-block", "belt_wblock_enc/belt_wblock_dec");
    set_prop("C18");
    let mut rng = Rng::for_label("C18/belt/wblock");
    for i in 0..iters().max(300) {
        let key = rng.bytes(32);
        // 32..=300 (every length once first), and a few long inputs
        let len = if i <= 268 { 32 + i } else if i % 16 == 0 { rng.range(2033, 2600) } else { wide_len(&mut rng, 32, 300) };
        let x = rng.plain(len);
        input(&[("key", &key), ("data", &x)]);
        input_add_str("len", &len.to_string());
        guard("wide-block conformance", || {
            let theta: [u32; 8] = r::words::<8>(&key);
            let mut got = x.clone();
            let res = belt_wblock_enc(&mut got, &theta);
            let mut w = x.clone();
            r::wblock_enc(&mut w, &theta);
            if res.is_err() {
                fail("belt_wblock_enc rejects an input of at least 32 bytes", "Err", "Ok");
            } else {
                check_eq("belt_wblock_enc differs from STB 34.101.31 belt-wblock", &got, &w);
            }
            let mut got = x.clone();
            let res = belt_wblock_dec(&mut got, &theta);
            let mut w = x.clone();
            r::wblock_dec(&mut w, &theta);
            if res.is_err() {
                fail("belt_wblock_dec rejects an input of at least 32 bytes", "Err", "Ok");
            } else {
                check_eq("belt_wblock_dec differs from STB 34.101.31 belt-wblock^-1", &got, &w);
            }
        });
    }
    // thorough tier only (VP_FALSIFY_LONG=1): one input long enough for the round counter 2n to exceed 16 bits
    // (n >= 32768 blocks, i.e. >= 524273 bytes); quadratic in the length, about a minute per call
    if std::env::var("VP_FALSIFY_LONG").ok().as_deref() == Some("1") {
        let key = rng.bytes(32);
        let len = 524273 + 7;
        let x = rng.plain(len);
        input(&[("key", &key)]);
        input_add_str("len", &len.to_string());
        guard("wide-block conformance (long input)", || {
            let theta: [u32; 8] = r::words::<8>(&key);
            let mut got = x.clone();
            let _ = belt_wblock_enc(&mut got, &theta);
            let mut w = x.clone();
            r::wblock_enc(&mut w, &theta);
            check_eq("belt_wblock_enc differs from STB 34.101.31 belt-wblock (long input)", &got[len - 64..].to_vec(), &w[len - 64..].to_vec());
            let mut back = got.clone();
            let _ = belt_wblock_dec(&mut back, &theta);
            check_eq("belt_wblock_dec(belt_wblock_enc(x)) != x (long input)", &back[..64].to_vec(), &x[..64].to_vec());
        });
    }
    // shorter input: length error, buffer untouched
    for len in 0..32usize {
        for _ in 0..4 {
            let key = rng.bytes(32);
            let x = rng.bytes(len);
            input(&[("key", &key), ("data", &x)]);
            input_add_str("len", &len.to_string());
            guard("wide-block short input", || {
                let theta: [u32; 8] = r::words::<8>(&key);
                let mut got = x.clone();
                if belt_wblock_enc(&mut got, &theta).is_ok() {
                    fail("belt_wblock_enc accepts an input shorter than 32 bytes", "Ok", "Err(InvalidLengthError)");
                }
                check_eq("belt_wblock_enc modified a rejected buffer", &got, &x);
                let mut got = x.clone();
                if belt_wblock_dec(&mut got, &theta).is_ok() {
                    fail("belt_wblock_dec accepts an input shorter than 32 bytes", "Ok", "Err(InvalidLengthError)");
                }
                check_eq("belt_wblock_dec modified a rejected buffer", &got, &x);
            });
        }
    }
}

pub fn run() {
    visit::<DBelt>();
    if want("C07") {
        raw();
    }
    if want("C01") {
        wide_roundtrip();
    }
    if want("C18") {
        wide_conformance();
    }
}
