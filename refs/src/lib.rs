//! Reference algorithms ("spec functions") for the contracts in /verif/contracts.
//! Written from the standards' own text and structure (tables, bit numbering), never from /repo's
//! optimised code; every module carries the standard's published vectors as unit tests
//! (`cargo test` in this directory is part of MANIFEST.setup_cmd).
//! Style: plain loops with constant bounds, no allocation, no dependencies, so that Kani can
//! execute them symbolically next to the real code.
#![no_std]
#![allow(clippy::all)]
#![allow(dead_code)]

pub mod des;
