// Contracts on kuznyechik/src/big_soft/backends.rs (build configuration --cfg kuznyechik_backend="soft"): the
// table-driven backend on u128 words.  A block is the u128 read little-endian from the 16 octets in printed order.
//
// Decomposition (the whole cipher over the 64 KiB tables indexed symbolically exhausts memory):
//   c_transform_*    transform(b, T) = XOR_i T[i][b_i] on the two real tables, one byte position at a time (bounded)
//   fused_tables.*   ENC_TABLE = LS, DEC_TABLE = SLINV (concrete), XOR_i LS[i][b_i] = XOR_i L(unit_i(S(b)_i)) (symbolic)
//   lemmas.*         L(y) = XOR_i L(unit_i(y_i))  (GF(2)-linearity of L, L^-1)
//   => contract of transform on the two real tables: transform(b, &ENC_TABLE) = L(S(b)), transform(b, &DEC_TABLE) =
//      L^-1(S^-1(b)); every caller below is proved against that contract (`spec_transform`, chosen by table identity).
//
// STATUS (end of round, 2026-10-04): discharged: c_sub_bytes, c_inv_enc_keys (quick), c_enc_block, c_dec_block,
// c_transform_enc_3 (thorough).  `transform` itself is only covered at ONE byte position of ONE table (bounded);
// c_expand_enc_keys timed out and is NOT registered.
// @module file=kuznyechik/src/big_soft/backends.rs
// @config name=soft rustflags='--cfg kuznyechik_backend="soft"'
use super::*;
use crate::fused_tables::__vp_fused_tables::entry;
use bcref::kuznyechik as kz;
use crate::__vp_lemmas::ruf;
use crate::__vp_lemmas::{spec_dec_dk, spec_inv_keys};

pub fn bytes(x: u128) -> [u8; 16] { x.to_le_bytes() }
pub fn word(b: &[u8; 16]) -> u128 { u128::from_le_bytes(*b) }

/// XOR_i T[i][b_i]
pub fn spec_transform_table(block: u128, t: &Table) -> u128 {
    let b = bytes(block);
    let mut acc = 0u128;
    let mut i = 0;
    while i < 16 {
        acc ^= word(&entry(t, i, b[i]));
        i += 1;
    }
    acc
}

/// contract of `transform` on the two real tables (see the header)
pub fn spec_transform(block: u128, table: &Table) -> u128 {
    if core::ptr::eq(table, &ENC_TABLE) {
        word(&kz::l(&kz::s(&bytes(block))))
    } else {
        assert!(core::ptr::eq(table, &DEC_TABLE)); // no other table exists in the crate
        word(&kz::l_inv(&kz::s_inv(&bytes(block))))
    }
}

// `transform` on the two real tables.  Neither a symbolic 64 KiB table nor the real one read at sixteen symbolic offsets
// is tractable (> 32 GB), and the table reads are plain indexing (nothing to stub), so the statement is checked one byte
// position at a time: byte i of the block symbolic, the other fifteen zero (kind=bounded).  The loop body of `transform`
// (`res ^= table[i][block[i]]`) treats the sixteen positions independently.
macro_rules! transform_at { ($name:ident, $table:ident, $i:expr) => {
    #[kani::proof]
    #[kani::unwind(17)]
    fn $name() {
        let v: u8 = kani::any();
        let mut b = [0u8; 16];
        b[$i] = v;
        let r = transform(word(&b), &$table);
        assert!(r == spec_transform_table(word(&b), &$table));
    }
}; }
// @ob name=c_transform_enc_3 tier=thorough cfg=soft props=C07,C20 kind=bounded bound="block = unit_3(v), v symbolic" fn=kuznyechik::big_soft::backends::transform timeout=3600
transform_at!(c_transform_enc_3, ENC_TABLE, 3);

// @ob name=c_sub_bytes cfg=soft props=C07,C20 fn=kuznyechik::big_soft::backends::sub_bytes timeout=300
#[kani::proof]
#[kani::unwind(17)]
fn c_sub_bytes() {
    let b: u128 = kani::any();
    assert!(kz::eq(&bytes(sub_bytes(b, &P)), &kz::s(&bytes(b))));
    assert!(kz::eq(&bytes(sub_bytes(b, &P_INV)), &kz::s_inv(&bytes(b))));
}

pub fn spec_sub_bytes(block: u128, sbox: &[u8; 256]) -> u128 {
    if core::ptr::eq(sbox, &P) {
        word(&kz::s(&bytes(block)))
    } else {
        assert!(core::ptr::eq(sbox, &P_INV));
        word(&kz::s_inv(&bytes(block)))
    }
}

pub fn raw_keys(k: &RoundKeys) -> [[u8; 16]; 10] {
    let mut out = [[0u8; 16]; 10];
    let mut i = 0;
    while i < 10 {
        out[i] = bytes(k[i]);
        i += 1;
    }
    out
}

// NOT REGISTERED (timeout 900 s in the final run under machine load ~25; to be redone with the transcript oracle as compact.c_f): ob name=c_expand_enc_keys cfg=soft props=C07,C20 fn=kuznyechik::big_soft::backends::expand_enc_keys uses=c_transform,c_enc_table_lo,c_enc_table_hi,c_ls_table,l_l_decomp,c_keygen,c_cref_lo,c_cref_hi timeout=900
#[kani::proof]
#[kani::stub(transform, spec_transform)]
#[kani::stub(bcref::kuznyechik::l, ruf::l)]
#[kani::stub(bcref::kuznyechik::l_inv, ruf::l_inv)]
#[kani::stub(bcref::kuznyechik::c, crate::utils::__vp_utils::cref_lookup)]
#[kani::unwind(151)]
fn c_expand_enc_keys() {
    let key: [u8; 32] = kani::any();
    let rk = expand_enc_keys(&cipher::Array(key));
    let spec = kz::key_schedule(&key);
    let mut i = 0;
    while i < 10 {
        assert!(kz::eq(&bytes(rk[i]), &spec[i]));
        i += 1;
    }
}

// for every value of the ten encryption keys: uses S^-1(S(x)) = x
// @ob name=c_inv_enc_keys cfg=soft props=C07,C20 fn=kuznyechik::big_soft::backends::inv_enc_keys uses=c_transform,c_dec_table_lo,c_dec_table_hi,c_slinv_table,l_linv_decomp,c_sub_bytes timeout=900
#[kani::proof]
#[kani::stub(transform, spec_transform)]
#[kani::stub(bcref::kuznyechik::l, ruf::l)]
#[kani::stub(bcref::kuznyechik::l_inv, ruf::l_inv)]
#[kani::stub(bcref::kuznyechik::c, crate::utils::__vp_utils::cref_lookup)]
#[kani::unwind(151)]
fn c_inv_enc_keys() {
    let enc: RoundKeys = kani::any();
    let dec = inv_enc_keys(&enc);
    let spec = spec_inv_keys(&raw_keys(&enc));
    let mut i = 0;
    while i < 10 {
        assert!(kz::eq(&bytes(dec[i]), &spec[i]));
        i += 1;
    }
}

pub fn enc_block(rk: &RoundKeys, b: [u8; 16]) -> [u8; 16] {
    let inp = cipher::Array(b);
    let mut out = cipher::Array([0u8; 16]);
    cipher::BlockCipherEncBackend::encrypt_block(&EncBackend(rk), cipher::InOut::from((&inp, &mut out)));
    out.0
}
pub fn dec_block(rk: &RoundKeys, b: [u8; 16]) -> [u8; 16] {
    let inp = cipher::Array(b);
    let mut out = cipher::Array([0u8; 16]);
    cipher::BlockCipherDecBackend::decrypt_block(&DecBackend(rk), cipher::InOut::from((&inp, &mut out)));
    out.0
}

// @ob name=c_enc_block tier=thorough cfg=soft props=C07,C20 fn=kuznyechik::big_soft::backends::EncBackend::encrypt_block uses=c_transform,c_enc_table_lo,c_enc_table_hi,c_ls_table,l_l_decomp timeout=3600
#[kani::proof]
#[kani::stub(transform, spec_transform)]
#[kani::stub(bcref::kuznyechik::l, ruf::l)]
#[kani::stub(bcref::kuznyechik::l_inv, ruf::l_inv)]
#[kani::stub(bcref::kuznyechik::c, crate::utils::__vp_utils::cref_lookup)]
#[kani::unwind(151)]
fn c_enc_block() {
    let rk: RoundKeys = kani::any();
    let b: [u8; 16] = kani::any();
    assert!(kz::eq(&enc_block(&rk, b), &kz::encrypt_with(&raw_keys(&rk), &b)));
}

// for every value of the ten decryption words
// (with dk = spec_inv_keys(K) this is the standard's D under K: lemmas.l_dec_dk_is_standard)
// @ob name=c_dec_block tier=thorough cfg=soft props=C07,C20 fn=kuznyechik::big_soft::backends::DecBackend::decrypt_block uses=c_transform,c_dec_table_lo,c_dec_table_hi,c_slinv_table,l_linv_decomp,c_sub_bytes timeout=3600
#[kani::proof]
#[kani::stub(transform, spec_transform)]
#[kani::stub(bcref::kuznyechik::l, ruf::l)]
#[kani::stub(bcref::kuznyechik::l_inv, ruf::l_inv)]
#[kani::stub(bcref::kuznyechik::c, crate::utils::__vp_utils::cref_lookup)]
#[kani::unwind(151)]
fn c_dec_block() {
    let dk: RoundKeys = kani::any();
    let b: [u8; 16] = kani::any();
    assert!(kz::eq(&dec_block(&dk, b), &spec_dec_dk(&raw_keys(&dk), &b)));
}

// ---- uninterpreted stand-ins with the real signatures, for the plumbing obligations in api_soft.rs
include!("@VERIF@/contracts/kuznyechik/uf_common.inc");
pub fn uf_expand_enc_keys(key: &Key) -> RoundKeys { unsafe { core::mem::transmute(ufs::k2rk(&key.0)) } }
pub fn uf_inv_enc_keys(enc: &RoundKeys) -> RoundKeys {
    unsafe { core::mem::transmute(ufs::rk2rk(&core::mem::transmute::<RoundKeys, [u8; 160]>(*enc))) }
}
pub fn uf_transform(block: u128, table: &Table) -> u128 {
    word(&ufs::blk(&bytes(block), &[0u8; 16], table as *const Table as usize))
}

// ---- contracts of key expansion / inversion as spec functions with the real signatures (stubs for api_*.rs)
pub fn spec_expand_enc_keys(key: &Key) -> RoundKeys { unsafe { core::mem::transmute(kz::key_schedule(&key.0)) } }
pub fn spec_inv_enc_keys(enc: &RoundKeys) -> RoundKeys { unsafe { core::mem::transmute(spec_inv_keys(&raw_keys(enc))) } }
