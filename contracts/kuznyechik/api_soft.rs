// API-level obligations for the soft backend (--cfg kuznyechik_backend="soft"): see api_common.inc for the harness bodies.
//
// @module file=kuznyechik/src/big_soft/mod.rs
// @config name=soft rustflags='--cfg kuznyechik_backend="soft"'
// @config name=soft_zeroize features=zeroize rustflags='--cfg kuznyechik_backend="soft"'
use super::*;
use backends::__vp_soft::{uf_expand_enc_keys, uf_inv_enc_keys};

macro_rules! with_key_stubs { ($i:item) => {
    #[kani::stub(backends::expand_enc_keys, uf_expand_enc_keys)]
    #[kani::stub(backends::inv_enc_keys, uf_inv_enc_keys)]
    $i
}; }
const ENC_PAR: usize = 3;
const DEC_PAR: usize = 1; // DecBackend has no parallel function of its own (width 1: the dispatch goes block by block)
macro_rules! with_block_stubs { ($i:item) => {
    #[kani::stub(<backends::EncBackend<'_> as cipher::BlockCipherEncBackend>::encrypt_block, uf_enc_block)]
    #[kani::stub(<backends::EncBackend<'_> as cipher::BlockCipherEncBackend>::encrypt_par_blocks, lane_enc_par)]
    #[kani::stub(<backends::DecBackend<'_> as cipher::BlockCipherDecBackend>::decrypt_block, uf_dec_block)]
    $i
}; }
macro_rules! with_backend_contracts { ($i:item) => {
    #[kani::stub(backends::expand_enc_keys, backends::__vp_soft::spec_expand_enc_keys)]
    #[kani::stub(backends::inv_enc_keys, pair_inv_enc_keys)]
    #[kani::stub(<backends::EncBackend<'_> as cipher::BlockCipherEncBackend>::encrypt_block, spec_enc_block)]
    #[kani::stub(<backends::DecBackend<'_> as cipher::BlockCipherDecBackend>::decrypt_block, spec_dec_block)]
    $i
}; }
include!("@VERIF@/contracts/kuznyechik/api_common.inc");
include!("@VERIF@/contracts/kuznyechik/api_tables.inc");

// C07 public API and C01 round trip: harness bodies and the composition argument in api_tables.inc
// @ob name=a_api_enc cfg=soft props=C07,C20 fn=kuznyechik::Kuznyechik::new,kuznyechik::Kuznyechik::encrypt_with_backend,kuznyechik::KuznyechikEnc::new,kuznyechik::KuznyechikEnc::encrypt_with_backend,kuznyechik::big_soft::EncKeys::new uses=c_expand_enc_keys,c_enc_block,l_ref_roundtrip,l_ref_roundtrip_rev timeout=300
// @ob name=a_api_dec cfg=soft props=C07,C20 fn=kuznyechik::Kuznyechik::new,kuznyechik::Kuznyechik::decrypt_with_backend,kuznyechik::big_soft::EncDecKeys::from uses=c_expand_enc_keys,c_inv_enc_keys,c_dec_block,l_dec_dk_is_standard,l_ref_roundtrip,l_ref_roundtrip_rev timeout=300
// @ob name=a_api_only_dec cfg=soft props=C07,C20 fn=kuznyechik::KuznyechikDec::new,kuznyechik::KuznyechikDec::decrypt_with_backend,kuznyechik::big_soft::DecKeys::from uses=c_expand_enc_keys,c_inv_enc_keys,c_dec_block,l_dec_dk_is_standard,l_ref_roundtrip,l_ref_roundtrip_rev timeout=300
// @ob name=a_api_converted cfg=soft props=C12,C07,C20 fn=kuznyechik::Kuznyechik::from,kuznyechik::KuznyechikDec::from,kuznyechik::Kuznyechik::clone,kuznyechik::KuznyechikEnc::clone,kuznyechik::KuznyechikDec::clone,kuznyechik::Kuznyechik::encrypt_with_backend,kuznyechik::Kuznyechik::decrypt_with_backend,kuznyechik::KuznyechikDec::decrypt_with_backend uses=c_expand_enc_keys,c_inv_enc_keys,c_dec_block,l_dec_dk_is_standard,l_ref_roundtrip,l_ref_roundtrip_rev,c_enc_block timeout=300
// @ob name=r_comb_ed cfg=soft props=C01 kind=lemma fn=kuznyechik::Kuznyechik::from,kuznyechik::Kuznyechik::encrypt_with_backend,kuznyechik::Kuznyechik::decrypt_with_backend uses=c_inv_enc_keys,c_enc_block,c_dec_block,l_dec_dk_is_standard,l_ref_roundtrip,l_ref_roundtrip_rev timeout=300
// @ob name=r_comb_de cfg=soft props=C01 kind=lemma fn=kuznyechik::Kuznyechik::from,kuznyechik::Kuznyechik::encrypt_with_backend,kuznyechik::Kuznyechik::decrypt_with_backend uses=c_inv_enc_keys,c_enc_block,c_dec_block,l_dec_dk_is_standard,l_ref_roundtrip,l_ref_roundtrip_rev timeout=300
// @ob name=r_halves_ed cfg=soft props=C01,C12 kind=lemma fn=kuznyechik::KuznyechikDec::from,kuznyechik::KuznyechikEnc::encrypt_with_backend,kuznyechik::KuznyechikDec::decrypt_with_backend uses=c_inv_enc_keys,c_enc_block,c_dec_block,l_dec_dk_is_standard,l_ref_roundtrip,l_ref_roundtrip_rev timeout=300
// @ob name=r_halves_de cfg=soft props=C01,C12 kind=lemma fn=kuznyechik::KuznyechikDec::from,kuznyechik::KuznyechikEnc::encrypt_with_backend,kuznyechik::KuznyechikDec::decrypt_with_backend uses=c_inv_enc_keys,c_enc_block,c_dec_block,l_dec_dk_is_standard,l_ref_roundtrip,l_ref_roundtrip_rev timeout=300
// @ob name=r_key_both cfg=soft props=C01 kind=lemma fn=kuznyechik::Kuznyechik::new,kuznyechik::Kuznyechik::encrypt_with_backend,kuznyechik::Kuznyechik::decrypt_with_backend uses=c_expand_enc_keys,c_inv_enc_keys,c_enc_block,c_dec_block,l_dec_dk_is_standard,l_ref_roundtrip,l_ref_roundtrip_rev timeout=300
// @ob name=k_len cfg=soft props=C11 kind=bounded bound="slice length <= 300" fn=kuznyechik::Kuznyechik::new_from_slice uses=c_expand_enc_keys,c_inv_enc_keys timeout=300
// @ob name=k_len_enc cfg=soft props=C11 kind=bounded bound="slice length <= 300" fn=kuznyechik::KuznyechikEnc::new_from_slice uses=c_expand_enc_keys timeout=300
// @ob name=k_len_dec cfg=soft props=C11 kind=bounded bound="slice length <= 300" fn=kuznyechik::KuznyechikDec::new_from_slice uses=c_expand_enc_keys,c_inv_enc_keys timeout=300
// @ob name=k_same_state cfg=soft props=C11,C12,C13 fn=kuznyechik::Kuznyechik::new,kuznyechik::KuznyechikEnc::new,kuznyechik::KuznyechikDec::new,kuznyechik::Kuznyechik::from,kuznyechik::KuznyechikDec::from,kuznyechik::big_soft::EncKeys::new,kuznyechik::big_soft::EncDecKeys::from,kuznyechik::big_soft::DecKeys::from uses=c_expand_enc_keys,c_inv_enc_keys timeout=600
// @ob name=k_clone cfg=soft props=C12 fn=kuznyechik::Kuznyechik::clone,kuznyechik::KuznyechikEnc::clone,kuznyechik::KuznyechikDec::clone timeout=300
// @ob name=k_convert_any_state cfg=soft props=C12 fn=kuznyechik::Kuznyechik::from,kuznyechik::KuznyechikDec::from uses=c_inv_enc_keys timeout=300
// @ob name=n_kuznyechik cfg=soft props=C19 fn=kuznyechik::Kuznyechik::fmt,kuznyechik::Kuznyechik::write_alg_name timeout=300
// @ob name=n_kuznyechik_enc cfg=soft props=C19 fn=kuznyechik::KuznyechikEnc::fmt,kuznyechik::KuznyechikEnc::write_alg_name timeout=300
// @ob name=n_kuznyechik_dec cfg=soft props=C19 fn=kuznyechik::KuznyechikDec::fmt,kuznyechik::KuznyechikDec::write_alg_name timeout=300
// @ob name=z_kuznyechik cfg=soft_zeroize props=C16 fn=kuznyechik::Kuznyechik::drop timeout=300
// @ob name=z_kuznyechik_enc cfg=soft_zeroize props=C16 fn=kuznyechik::KuznyechikEnc::drop timeout=300
// @ob name=z_kuznyechik_dec cfg=soft_zeroize props=C16 fn=kuznyechik::KuznyechikDec::drop timeout=300
// @ob name=z_kuznyechik_clone cfg=soft_zeroize props=C16 fn=kuznyechik::Kuznyechik::drop,kuznyechik::Kuznyechik::clone timeout=300
// @ob name=z_kuznyechik_from_ref cfg=soft_zeroize props=C16 fn=kuznyechik::Kuznyechik::drop,kuznyechik::Kuznyechik::from uses=c_inv_enc_keys timeout=300
// @ob name=z_kuznyechik_from_val cfg=soft_zeroize props=C16 fn=kuznyechik::Kuznyechik::drop,kuznyechik::Kuznyechik::from uses=c_inv_enc_keys timeout=300
// @ob name=z_kuznyechik_dec_from_ref cfg=soft_zeroize props=C16 fn=kuznyechik::KuznyechikDec::drop,kuznyechik::KuznyechikDec::from uses=c_inv_enc_keys timeout=300
// @ob name=z_kuznyechik_dec_from_val cfg=soft_zeroize props=C16 fn=kuznyechik::KuznyechikDec::drop,kuznyechik::KuznyechikDec::from uses=c_inv_enc_keys timeout=300

// parallel width 3 for encryption: n = 0, 1, 2 (fewer: tail only), 3 (equal), 4 (one chunk + tail), 7 (two chunks + tail);
// decryption has width 1: n = 0, 1, 2, 3
// @ob name=m_enc_0 cfg=soft props=C04,C15 kind=bounded bound="n = 0 blocks" fn=kuznyechik::Kuznyechik::encrypt_with_backend,kuznyechik::big_soft::backends::EncBackend::encrypt_par_blocks uses=c_enc_block,p_enc_par timeout=600
multi_enc!(m_enc_0, Kuznyechik, SZ, 0);
// @ob name=m_enc_1 cfg=soft props=C04,C15 kind=bounded bound="n = 1 blocks" fn=kuznyechik::Kuznyechik::encrypt_with_backend,kuznyechik::big_soft::backends::EncBackend::encrypt_par_blocks uses=c_enc_block,p_enc_par timeout=600
multi_enc!(m_enc_1, Kuznyechik, SZ, 1);
// @ob name=m_enc_2 cfg=soft props=C04,C15 kind=bounded bound="n = 2 blocks" fn=kuznyechik::Kuznyechik::encrypt_with_backend,kuznyechik::big_soft::backends::EncBackend::encrypt_par_blocks uses=c_enc_block,p_enc_par timeout=600
multi_enc!(m_enc_2, Kuznyechik, SZ, 2);
// @ob name=m_enc_3 cfg=soft props=C04,C15 kind=bounded bound="n = 3 blocks" fn=kuznyechik::Kuznyechik::encrypt_with_backend,kuznyechik::big_soft::backends::EncBackend::encrypt_par_blocks uses=c_enc_block,p_enc_par timeout=600
multi_enc!(m_enc_3, Kuznyechik, SZ, 3);
// @ob name=m_enc_4 cfg=soft props=C04,C15 kind=bounded bound="n = 4 blocks" fn=kuznyechik::Kuznyechik::encrypt_with_backend,kuznyechik::big_soft::backends::EncBackend::encrypt_par_blocks uses=c_enc_block,p_enc_par timeout=600
multi_enc!(m_enc_4, Kuznyechik, SZ, 4);
// @ob name=m_enc_7 cfg=soft props=C04,C15 kind=bounded bound="n = 7 blocks" fn=kuznyechik::Kuznyechik::encrypt_with_backend,kuznyechik::big_soft::backends::EncBackend::encrypt_par_blocks uses=c_enc_block,p_enc_par timeout=600
multi_enc!(m_enc_7, Kuznyechik, SZ, 7);
// @ob name=m_enconly_7 cfg=soft props=C04,C15 kind=bounded bound="n = 7 blocks" fn=kuznyechik::KuznyechikEnc::encrypt_with_backend,kuznyechik::big_soft::backends::EncBackend::encrypt_par_blocks uses=c_enc_block,p_enc_par timeout=600
multi_enc!(m_enconly_7, KuznyechikEnc, SZE, 7);
// @ob name=m_dec_0 cfg=soft props=C04,C15 kind=bounded bound="n = 0 blocks" fn=kuznyechik::Kuznyechik::decrypt_with_backend uses=c_dec_block timeout=600
multi_dec!(m_dec_0, Kuznyechik, SZ, 0);
// @ob name=m_dec_1 cfg=soft props=C04,C15 kind=bounded bound="n = 1 blocks" fn=kuznyechik::Kuznyechik::decrypt_with_backend uses=c_dec_block timeout=600
multi_dec!(m_dec_1, Kuznyechik, SZ, 1);
// @ob name=m_dec_2 cfg=soft props=C04,C15 kind=bounded bound="n = 2 blocks" fn=kuznyechik::Kuznyechik::decrypt_with_backend uses=c_dec_block timeout=600
multi_dec!(m_dec_2, Kuznyechik, SZ, 2);
// @ob name=m_dec_3 cfg=soft props=C04,C15 kind=bounded bound="n = 3 blocks" fn=kuznyechik::Kuznyechik::decrypt_with_backend uses=c_dec_block timeout=600
multi_dec!(m_dec_3, Kuznyechik, SZ, 3);
// @ob name=m_deconly_3 cfg=soft props=C04,C15 kind=bounded bound="n = 3 blocks" fn=kuznyechik::KuznyechikDec::decrypt_with_backend uses=c_dec_block timeout=600
multi_dec!(m_deconly_3, KuznyechikDec, SZD, 3);
