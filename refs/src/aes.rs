//! (reference for aes: to be written)
