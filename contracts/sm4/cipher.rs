// Contracts on sm4/src/lib.rs against GB/T 32907-2016 (bcref::sm4): the helper functions tau, el, el_prime, t,
// t_prime, the key schedule (KeyInit::new), the two block functions for EVERY value of the 32 round keys, the
// public API on bytes, and the round trip C01.
//
// The rounds are inline in encrypt_block / decrypt_block (4 per loop iteration); the only callee is `t`
// (resp. `t_prime` in the key schedule).  c_t / c_t_prime show that `t` / `t_prime` ARE the standard's T / T'
// (bcref::sm4::t / t_prime).  The composition obligations then replace T on BOTH sides (the real `t` and the
// reference's `bcref::sm4::t`) by one record / replay uninterpreted function (see rr_uf.rs): the round structure,
// round-key order and byte plumbing agree for every function T, hence for the standard's.
// (Measured alternatives: replacing `t` by the table-driven `bcref::sm4::t` takes SAT solvers > 10 min, a searching
// Ackermann table 200-220 s on CaDiCaL, the unabstracted code 110-125 s on z3 for the block functions and > 10 min
// for the key schedule.)  The unabstracted block-function statements are kept as `*_mono` obligations on z3.
//
// @module file=sm4/src/lib.rs
use super::*;
use cipher::{Array, KeyInit};

pub fn eq32(a: &[u32; 32], b: &[u32; 32]) -> bool {
    let mut ok = true;
    let mut i = 0;
    while i < 32 {
        ok &= a[i] == b[i];
        i += 1;
    }
    ok
}
pub fn eq_bytes16(a: &[u8; 16], b: &[u8; 16]) -> bool {
    let mut ok = true;
    let mut i = 0;
    while i < 16 {
        ok &= a[i] == b[i];
        i += 1;
    }
    ok
}
pub fn any_sm4() -> Sm4 { Sm4 { rk: kani::any() } }

include!("@VERIF@/contracts/sm4/rr_uf.rs");
rr_uf!(uft, u32); // stands for T
rr_uf!(uftp, u32); // stands for T'

// ---------------------------------------------------------------- constants and helpers
// The three constant tables equal the standard's (SBOX: clause 6.2 table; FK; CK from its formula), entry by entry.
// @ob name=x_tables props=C06 kind=exhaustive fn=sm4::consts::SBOX,sm4::consts::FK,sm4::consts::CK timeout=120
#[kani::proof]
#[kani::unwind(257)]
fn x_tables() {
    let mut i = 0;
    while i < 256 {
        assert!(SBOX[i] == bcref::sm4::SBOX[i]);
        i += 1;
    }
    let mut i = 0;
    while i < 32 {
        assert!(CK[i] == bcref::sm4::CK[i]);
        i += 1;
    }
    let mut i = 0;
    while i < 4 {
        assert!(FK[i] == bcref::sm4::FK[i]);
        i += 1;
    }
}

// @ob name=c_tau props=C06,C20 fn=sm4::tau timeout=300
#[kani::proof]
fn c_tau() { let a: u32 = kani::any(); assert!(tau(a) == bcref::sm4::tau(a)); }

// @ob name=c_el props=C06,C20 fn=sm4::el timeout=120
#[kani::proof]
fn c_el() { let b: u32 = kani::any(); assert!(el(b) == bcref::sm4::l(b)); }

// @ob name=c_el_prime props=C06,C20 fn=sm4::el_prime timeout=120
#[kani::proof]
fn c_el_prime() { let b: u32 = kani::any(); assert!(el_prime(b) == bcref::sm4::l_prime(b)); }

// @ob name=c_t props=C06,C20 fn=sm4::t uses=c_tau timeout=300
#[kani::proof]
#[kani::stub(tau, bcref::sm4::tau)]
fn c_t() { let v: u32 = kani::any(); assert!(t(v) == bcref::sm4::t(v)); }

// @ob name=c_t_prime props=C06,C20 fn=sm4::t_prime uses=c_tau timeout=300
#[kani::proof]
#[kani::stub(tau, bcref::sm4::tau)]
fn c_t_prime() { let v: u32 = kani::any(); assert!(t_prime(v) == bcref::sm4::t_prime(v)); }

// ---------------------------------------------------------------- key schedule
pub fn spec_new(key: &[u8; 16]) -> [u32; 32] { bcref::sm4::key_expansion(&bcref::sm4::words_of(key)) }

// @ob name=c_key_schedule props=C06,C20 fn=sm4::Sm4::new uses=c_t_prime,x_tables timeout=300
#[kani::proof]
#[kani::stub(t_prime, uftp::f)]
#[kani::stub(bcref::sm4::t_prime, uftp::f)]
#[kani::unwind(37)]
fn c_key_schedule() {
    let k: [u8; 16] = kani::any();
    let c = Sm4::new(&Array(k));
    uftp::replay_fwd();
    let e = spec_new(&k);
    assert!(uftp::done() && uftp::calls() == 32);
    assert!(eq32(&c.rk, &e));
}

// ---------------------------------------------------------------- block functions, every round-key state
pub fn enc(c: &Sm4, b: [u8; 16]) -> [u8; 16] {
    let mut blk = Array(b);
    cipher::BlockCipherEncrypt::encrypt_block(c, &mut blk);
    blk.0
}
pub fn dec(c: &Sm4, b: [u8; 16]) -> [u8; 16] {
    let mut blk = Array(b);
    cipher::BlockCipherDecrypt::decrypt_block(c, &mut blk);
    blk.0
}

// @ob name=c_encrypt props=C06,C20 fn=sm4::Sm4::encrypt_block uses=c_t timeout=300
#[kani::proof]
#[kani::stub(t, uft::f)]
#[kani::stub(bcref::sm4::t, uft::f)]
#[kani::unwind(37)]
fn c_encrypt() {
    let c = any_sm4();
    let b: [u8; 16] = kani::any();
    let r = enc(&c, b);
    uft::replay_fwd();
    let e = bcref::sm4::encrypt_with(&c.rk, &b);
    assert!(uft::done() && uft::calls() == 32);
    assert!(eq_bytes16(&r, &e));
}

// @ob name=c_decrypt props=C06,C20 fn=sm4::Sm4::decrypt_block uses=c_t timeout=300
#[kani::proof]
#[kani::stub(t, uft::f)]
#[kani::stub(bcref::sm4::t, uft::f)]
#[kani::unwind(37)]
fn c_decrypt() {
    let c = any_sm4();
    let b: [u8; 16] = kani::any();
    let r = dec(&c, b);
    uft::replay_fwd();
    let e = bcref::sm4::decrypt_with(&c.rk, &b);
    assert!(uft::done() && uft::calls() == 32);
    assert!(eq_bytes16(&r, &e));
}

// ---------------------------------------------------------------- public API on bytes, every key and block
// @ob name=c_api_enc props=C06,C20 fn=sm4::Sm4::new,sm4::Sm4::encrypt_block uses=c_t,c_t_prime timeout=300
#[kani::proof]
#[kani::stub(t, uft::f)]
#[kani::stub(bcref::sm4::t, uft::f)]
#[kani::stub(t_prime, uftp::f)]
#[kani::stub(bcref::sm4::t_prime, uftp::f)]
#[kani::unwind(37)]
fn c_api_enc() {
    let k: [u8; 16] = kani::any();
    let b: [u8; 16] = kani::any();
    let c = Sm4::new(&Array(k));
    let r = enc(&c, b);
    uft::replay_fwd();
    uftp::replay_fwd();
    let e = bcref::sm4::encrypt(&k, &b);
    assert!(uft::done() && uftp::done() && uft::calls() == 32 && uftp::calls() == 32);
    assert!(eq_bytes16(&r, &e));
}

// @ob name=c_api_dec props=C06,C20 fn=sm4::Sm4::new,sm4::Sm4::decrypt_block uses=c_t,c_t_prime timeout=300
#[kani::proof]
#[kani::stub(t, uft::f)]
#[kani::stub(bcref::sm4::t, uft::f)]
#[kani::stub(t_prime, uftp::f)]
#[kani::stub(bcref::sm4::t_prime, uftp::f)]
#[kani::unwind(37)]
fn c_api_dec() {
    let k: [u8; 16] = kani::any();
    let b: [u8; 16] = kani::any();
    let c = Sm4::new(&Array(k));
    let r = dec(&c, b);
    uft::replay_fwd();
    uftp::replay_fwd();
    let e = bcref::sm4::decrypt(&k, &b);
    assert!(uft::done() && uftp::done() && uft::calls() == 32 && uftp::calls() == 32);
    assert!(eq_bytes16(&r, &e));
}

// The same with no stub at all: the real code (tables included) against the reference, every round-key state.
// @ob name=c_encrypt_mono props=C06,C20 fn=sm4::Sm4::encrypt_block,sm4::t,sm4::tau,sm4::el solver=z3 timeout=900
#[kani::proof]
#[kani::solver(z3)]
#[kani::unwind(37)]
fn c_encrypt_mono() {
    let c = any_sm4();
    let b: [u8; 16] = kani::any();
    assert!(eq_bytes16(&enc(&c, b), &bcref::sm4::encrypt_with(&c.rk, &b)));
}
// @ob name=c_decrypt_mono props=C06,C20 fn=sm4::Sm4::decrypt_block,sm4::t,sm4::tau,sm4::el solver=z3 timeout=900
#[kani::proof]
#[kani::solver(z3)]
#[kani::unwind(37)]
fn c_decrypt_mono() {
    let c = any_sm4();
    let b: [u8; 16] = kani::any();
    assert!(eq_bytes16(&dec(&c, b), &bcref::sm4::decrypt_with(&c.rk, &b)));
}

// ---------------------------------------------------------------- C01 round trip, every round-key state
// T abstracted (licensed by c_t: t is a pure function): decryption presents T with the arguments of encryption in
// reverse order (replay_bwd), and vice versa.
// @ob name=l_roundtrip props=C01 kind=lemma fn=sm4::Sm4::encrypt_block,sm4::Sm4::decrypt_block uses=c_t timeout=300
#[kani::proof]
#[kani::stub(t, uft::f)]
#[kani::unwind(37)]
fn l_roundtrip() {
    let c = any_sm4();
    let b: [u8; 16] = kani::any();
    let y = enc(&c, b);
    uft::replay_bwd();
    let x = dec(&c, y);
    assert!(uft::done() && uft::calls() == 32);
    assert!(eq_bytes16(&x, &b));
}
// @ob name=l_roundtrip_rev props=C01 kind=lemma fn=sm4::Sm4::encrypt_block,sm4::Sm4::decrypt_block uses=c_t timeout=300
#[kani::proof]
#[kani::stub(t, uft::f)]
#[kani::unwind(37)]
fn l_roundtrip_rev() {
    let c = any_sm4();
    let b: [u8; 16] = kani::any();
    let y = dec(&c, b);
    uft::replay_bwd();
    let x = enc(&c, y);
    assert!(uft::done() && uft::calls() == 32);
    assert!(eq_bytes16(&x, &b));
}
// The same on the unmodified code (real t, tau, S-box), both orders.
// @ob name=l_roundtrip_mono props=C01 kind=lemma fn=sm4::Sm4::encrypt_block,sm4::Sm4::decrypt_block,sm4::t solver=z3 timeout=900
#[kani::proof]
#[kani::solver(z3)]
#[kani::unwind(37)]
fn l_roundtrip_mono() {
    let c = any_sm4();
    let b: [u8; 16] = kani::any();
    assert!(eq_bytes16(&dec(&c, enc(&c, b)), &b));
}
// @ob name=l_roundtrip_rev_mono props=C01 kind=lemma fn=sm4::Sm4::encrypt_block,sm4::Sm4::decrypt_block,sm4::t solver=z3 timeout=900
#[kani::proof]
#[kani::solver(z3)]
#[kani::unwind(37)]
fn l_roundtrip_rev_mono() {
    let c = any_sm4();
    let b: [u8; 16] = kani::any();
    assert!(eq_bytes16(&enc(&c, dec(&c, b)), &b));
}
